From Coq Require Import List NArith Bool Lia Permutation Sorted PeanoNat.
From Scion Require Import Lib.Check Model.Store.
Import ListNotations.
Import Store.
Local Open Scope N_scope.

(** * Equality tests *)

Lemma id_eqb_eq a b : id_eqb a b = true <-> a = b.
Proof. apply list_eqb_eq. intros; apply N.eqb_eq. Qed.
Lemma id_eqb_refl a : id_eqb a a = true.
Proof. now apply id_eqb_eq. Qed.
Lemma id_eqb_neq a b : id_eqb a b = false <-> a <> b.
Proof.
  split.
  - intros E H. apply id_eqb_eq in H. congruence.
  - intros H. destruct (id_eqb a b) eqn:E; [|reflexivity]. apply id_eqb_eq in E. contradiction.
Qed.

Lemma ia_eqb_eq a b : ia_eqb a b = true <-> a = b.
Proof.
  destruct a as [a1 a2], b as [b1 b2]. unfold ia_eqb. cbn [fst snd].
  rewrite andb_true_iff, !N.eqb_eq. split; [intros [-> ->]; reflexivity|].
  intros E; inversion E; auto.
Qed.

Lemma crow_eqb_eq a b : crow_eqb a b = true <-> a = b.
Proof.
  destruct a as [[i p] f], b as [[j q] g]. unfold crow_eqb.
  rewrite !andb_true_iff, id_eqb_eq, !N.eqb_eq. split; [intros [[-> ->] ->]; reflexivity|].
  intros E; inversion E; auto.
Qed.

Lemma brow_eqb_eq a b : brow_eqb a b = true <-> a = b.
Proof.
  destruct a as [[[[i1 p1] f1] u1] l1], b as [[[[i2 p2] f2] u2] l2]. unfold brow_eqb.
  rewrite !andb_true_iff, id_eqb_eq, !N.eqb_eq. split.
  - intros [[[[-> ->] ->] ->] ->]. reflexivity.
  - intros E; inversion E; auto.
Qed.

Lemma prow_eqb_eq a b : prow_eqb a b = true <-> a = b.
Proof.
  destruct a as [[[[i1 p1] t1] g1] l1], b as [[[[i2 p2] t2] g2] l2]. unfold prow_eqb.
  rewrite !andb_true_iff, id_eqb_eq, !N.eqb_eq.
  assert (G : list_eqb N.eqb g1 g2 = true <-> g1 = g2) by (apply list_eqb_eq; intros; apply N.eqb_eq).
  rewrite G. split.
  - intros [[[[-> ->] ->] ->] ->]. reflexivity.
  - intros E; inversion E; auto.
Qed.

(** * Boolean set operations *)
Section SetOps.
  Context {A : Type} (eqb : A -> A -> bool) (eqb_eq : forall x y, eqb x y = true <-> x = y).

  Lemma mem_by_In x l : mem_by eqb x l = true <-> In x l.
  Proof.
    unfold mem_by. rewrite existsb_exists. split.
    - intros [y [H E]]. apply eqb_eq in E. now subst.
    - intros H. exists x. split; [exact H|now apply eqb_eq].
  Qed.

  Lemma incl_by_incl a b : incl_by eqb a b = true <-> incl a b.
  Proof.
    unfold incl_by. rewrite forallb_forall. unfold incl. split; intros H x Hx.
    - apply mem_by_In. now apply H.
    - apply mem_by_In. now apply H.
  Qed.

  Lemma nodup_by_NoDup l : nodup_by eqb l = true <-> NoDup l.
  Proof.
    induction l as [|x t IH]; cbn; [split; [constructor|reflexivity]|].
    rewrite andb_true_iff, negb_true_iff, IH. split.
    - intros [H1 H2]. constructor; [|exact H2]. intros H. apply mem_by_In in H. congruence.
    - intros H. inversion H as [|? ? Hn Hd]; subst. split; [|exact Hd].
      destruct (mem_by eqb x t) eqn:E; [|reflexivity]. apply mem_by_In in E. contradiction.
  Qed.

  Lemma same_set_refl l : NoDup l -> same_set eqb l l = true.
  Proof.
    intros H. unfold same_set. rewrite !andb_true_iff. repeat split.
    - now apply nodup_by_NoDup.
    - apply incl_by_incl. apply incl_refl.
    - apply incl_by_incl. apply incl_refl.
  Qed.

  Lemma same_set_iff a b :
    same_set eqb a b = true <-> NoDup a /\ (forall x, In x a <-> In x b).
  Proof.
    unfold same_set. rewrite !andb_true_iff, nodup_by_NoDup, !incl_by_incl. unfold incl.
    split.
    - intros [[H1 H2] H3]. split; [exact H1|]. intros x; split; auto.
    - intros [H1 H2]. repeat split; auto; intros x Hx; now apply H2.
  Qed.
End SetOps.

(** * Rows keyed by segment id *)
Section Keyed.
  Context {E : Type} (key : E -> segid).

  Lemma kfind_some id l e : kfind key id l = Some e -> In e l /\ key e = id.
  Proof.
    induction l as [|x t IH]; cbn; [discriminate|].
    destruct (id_eqb (key x) id) eqn:K.
    - intros H; inversion H; subst. split; [now left|now apply id_eqb_eq].
    - intros H. destruct (IH H). auto.
  Qed.

  Lemma kfind_none id l : kfind key id l = None <-> ~ In id (map key l).
  Proof.
    induction l as [|x t IH]; cbn; [tauto|].
    destruct (id_eqb (key x) id) eqn:K.
    - apply id_eqb_eq in K. split; [discriminate|]. intros H; elim H; now left.
    - apply id_eqb_neq in K. rewrite IH. tauto.
  Qed.

  Lemma kfind_in l e : NoDup (map key l) -> In e l -> kfind key (key e) l = Some e.
  Proof.
    induction l as [|x t IH]; cbn; [tauto|]. intros W [->|H].
    - now rewrite id_eqb_refl.
    - inversion W as [|? ? Hn W']; subst.
      destruct (id_eqb (key x) (key e)) eqn:K.
      + apply id_eqb_eq in K. elim Hn. rewrite K. now apply in_map.
      + now apply IH.
  Qed.

  Lemma map_key_kreplace e' l : map key (kreplace key e' l) = map key l.
  Proof.
    induction l as [|x t IH]; cbn; [reflexivity|].
    destruct (id_eqb (key x) (key e')) eqn:K; cbn.
    - apply id_eqb_eq in K. now rewrite K.
    - now rewrite IH.
  Qed.

  Lemma kfind_kreplace e' id l :
    kfind key id (kreplace key e' l) =
    if id_eqb (key e') id
    then match kfind key id l with Some _ => Some e' | None => None end
    else kfind key id l.
  Proof.
    induction l as [|x t IH]; cbn; [now destruct (id_eqb (key e') id)|].
    destruct (id_eqb (key x) (key e')) eqn:K; cbn.
    - apply id_eqb_eq in K. rewrite K. now destruct (id_eqb (key e') id).
    - destruct (id_eqb (key x) id) eqn:K2.
      + apply id_eqb_eq in K2. subst id.
        assert (K3 : id_eqb (key e') (key x) = false).
        { apply id_eqb_neq. apply id_eqb_neq in K. congruence. }
        now rewrite K3.
      + exact IH.
  Qed.

  Lemma kfind_app id l e :
    kfind key id (l ++ [e]) =
    match kfind key id l with
    | Some x => Some x
    | None => if id_eqb (key e) id then Some e else None
    end.
  Proof.
    induction l as [|x t IH]; cbn; [reflexivity|]. now destruct (id_eqb (key x) id).
  Qed.

  Lemma map_key_filter_in f (l : list E) k : In k (map key (filter f l)) -> In k (map key l).
  Proof.
    rewrite !in_map_iff. intros [x [H1 H2]]. exists x. apply filter_In in H2. tauto.
  Qed.

  Lemma nodup_key_filter f l : NoDup (map key l) -> NoDup (map key (filter f l)).
  Proof.
    induction l as [|x t IH]; cbn; [auto|]. intros W.
    inversion W as [|? ? Hn W']; subst. destruct (f x); cbn; [|now apply IH].
    constructor; [|now apply IH]. intros H. apply Hn. eapply map_key_filter_in; eauto.
  Qed.

  Lemma kfind_filter f id l :
    NoDup (map key l) ->
    kfind key id (filter f l) =
    match kfind key id l with Some e => if f e then Some e else None | None => None end.
  Proof.
    induction l as [|x t IH]; cbn; [reflexivity|]. intros W.
    inversion W as [|? ? Hn W']; subst.
    destruct (id_eqb (key x) id) eqn:K.
    - destruct (f x); cbn; [now rewrite K|].
      apply id_eqb_eq in K. subst. apply kfind_none. intros H. apply Hn.
      eapply map_key_filter_in; eauto.
    - destruct (f x); cbn; [rewrite K|]; now apply IH.
  Qed.

  Lemma nodup_snoc {X} (l : list X) x : NoDup l -> ~ In x l -> NoDup (l ++ [x]).
  Proof.
    induction l as [|y t IH]; cbn; intros W H; [constructor; [tauto|constructor]|].
    inversion W as [|? ? Hn W']; subst. constructor.
    - intros Hin. apply in_app_or in Hin as [Hin|[->|[]]]; [contradiction|]. apply H. now left.
    - apply IH; [exact W'|]. intros Hx. apply H. now right.
  Qed.

  Lemma nodup_key_app l e :
    NoDup (map key l) -> kfind key (key e) l = None -> NoDup (map key (l ++ [e])).
  Proof.
    intros W K. rewrite map_app. cbn. apply nodup_snoc; [exact W|]. now apply kfind_none.
  Qed.
End Keyed.

Lemma nodup_map_filter {X Y} (f : X -> Y) (g : X -> bool) l :
  NoDup (map f l) -> NoDup (map f (filter g l)).
Proof.
  induction l as [|x t IH]; cbn; [auto|]. intros W.
  inversion W as [|? ? Hn W']; subst. destruct (g x); cbn; [|now apply IH].
  constructor; [|now apply IH]. intros H. apply Hn.
  apply in_map_iff in H as [y [H1 H2]]. apply filter_In in H2 as [H2 _].
  apply in_map_iff. eauto.
Qed.

Lemma nodup_firstn {X} n (l : list X) : NoDup l -> NoDup (firstn n l).
Proof.
  revert l. induction n as [|n IH]; intros [|x t] W; cbn; try constructor.
  - inversion W as [|? ? Hn W']; subst. intros H. apply Hn.
    rewrite <- (firstn_skipn n t). apply in_or_app. now left.
  - inversion W; subst. now apply IH.
Qed.

(** * Generic insertion sort facts *)
Section Sorting.
  Context {X : Type} (before : X -> X -> bool).
  (** [before x e]: x has to stay in front of e *)
  Definition ord (x y : X) : Prop := before y x = false.
  Context (before_asym : forall x y, before x y = true -> before y x = false)
          (ord_trans : forall x y z, ord x y -> ord y z -> ord x z).

  Fixpoint ins (e : X) (l : list X) : list X :=
    match l with
    | [] => [e]
    | x :: t => if before x e then x :: ins e t else e :: l
    end.
  Definition isort (l : list X) : list X := fold_right ins [] l.

  Lemma ins_perm e l : Permutation (ins e l) (e :: l).
  Proof.
    induction l as [|x t IH]; cbn; [reflexivity|]. destruct (before x e); [|reflexivity].
    rewrite IH. apply perm_swap.
  Qed.

  Lemma isort_perm l : Permutation (isort l) l.
  Proof.
    induction l as [|x t IH]; cbn; [reflexivity|]. rewrite ins_perm. now constructor.
  Qed.

  Lemma ins_sorted e l : StronglySorted ord l -> StronglySorted ord (ins e l).
  Proof.
    induction l as [|x t IH]; cbn; intros S; [repeat constructor|].
    inversion S as [|? ? S' F]; subst. destruct (before x e) eqn:C.
    - constructor; [now apply IH|].
      apply Forall_forall. intros y Hy. apply (Permutation_in _ (ins_perm e t)) in Hy.
      destruct Hy as [<-|Hy]; [now apply before_asym|]. rewrite Forall_forall in F. now apply F.
    - constructor; [exact S|]. constructor; [exact C|].
      rewrite Forall_forall in *. intros y Hy. specialize (F y Hy). eapply ord_trans; eauto.
  Qed.

  Lemma isort_sorted l : StronglySorted ord (isort l).
  Proof. induction l as [|x t IH]; cbn; [constructor|now apply ins_sorted]. Qed.

  Lemma sorted_firstn n l : StronglySorted ord l -> StronglySorted ord (firstn n l).
  Proof.
    revert l. induction n as [|n IH]; intros [|x t] S; cbn; try constructor.
    - inversion S; subst. now apply IH.
    - inversion S as [|? ? S' F]; subst. rewrite Forall_forall in *. intros y Hy. apply F.
      rewrite <- (firstn_skipn n t). apply in_or_app. now left.
  Qed.

  Lemma sorted_split n l x y :
    StronglySorted ord l -> In x (firstn n l) -> In y (skipn n l) -> ord x y.
  Proof.
    revert l. induction n as [|n IH]; intros [|z t] S Hx Hy; cbn in *; try tauto.
    inversion S as [|? ? S' F]; subst. destruct Hx as [->|Hx].
    - rewrite Forall_forall in F. apply F. rewrite <- (firstn_skipn n t). apply in_or_app. now right.
    - now apply (IH t).
  Qed.
End Sorting.

(** * Beacon store *)

Definition bwf (db : beacon_db) : Prop := NoDup (map be_id db).

Lemma insert_beacon_find tick b u db id :
  kfind be_id id (fst (insert_beacon tick b u db)) =
  if id_eqb (b_id b) id then
    match kfind be_id (b_id b) db with
    | None => Some (bnew tick b u)
    | Some e => if be_ver e <? b_ver b then Some (bupd tick b u e) else Some e
    end
  else kfind be_id id db.
Proof.
  unfold insert_beacon. destruct (kfind be_id (b_id b) db) as [e|] eqn:F.
  - pose proof (kfind_some be_id _ _ _ F) as [_ Ke].
    destruct (be_ver e <? b_ver b); cbn [fst].
    + rewrite kfind_kreplace. cbn [bupd be_id]. rewrite Ke.
      destruct (id_eqb (b_id b) id) eqn:K; [|reflexivity].
      apply id_eqb_eq in K. subst id. now rewrite F.
    + destruct (id_eqb (b_id b) id) eqn:K; [|reflexivity].
      apply id_eqb_eq in K. now subst id.
  - cbn [fst]. rewrite kfind_app. cbn [bnew be_id].
    destruct (id_eqb (b_id b) id) eqn:K.
    + apply id_eqb_eq in K. subst id. now rewrite F.
    + now destruct (kfind be_id id db).
Qed.

Lemma bstep_insert_fst tick db b u :
  fst (bstep tick db (BInsert b u)) = fst (insert_beacon tick b u db).
Proof. cbn. now destruct (insert_beacon tick b u db). Qed.

Lemma bstep_wf tick db o : bwf db -> bwf (fst (bstep tick db o)).
Proof.
  unfold bwf. intros W. destruct o as [b u|p|now|n u src| |ord p]; try exact W.
  - rewrite bstep_insert_fst. unfold insert_beacon.
    destruct (kfind be_id (b_id b) db) as [e|] eqn:F.
    + destruct (be_ver e <? b_ver b); cbn [fst]; [|exact W]. now rewrite map_key_kreplace.
    + cbn [fst]. apply nodup_key_app; [exact W|exact F].
  - cbn. now apply nodup_key_filter.
  - cbn. now apply nodup_key_filter.
Qed.

(** the stored version of an identifier never decreases while it stays stored, and
    the stored row changes only when the version strictly increases *)
Lemma bstep_version_mono tick db o id e e' :
  bwf db -> kfind be_id id db = Some e -> kfind be_id id (fst (bstep tick db o)) = Some e' ->
  be_ver e <= be_ver e' /\ (be_ver e = be_ver e' -> e' = e).
Proof.
  intros W F F'. destruct o as [b u|p|now|n u src| |ord p];
    try (cbn in F'; rewrite F in F'; inversion F'; subst; split; [lia|reflexivity]).
  - rewrite bstep_insert_fst, insert_beacon_find in F'.
    destruct (id_eqb (b_id b) id) eqn:K.
    + apply id_eqb_eq in K. subst id. rewrite F in F'.
      destruct (be_ver e <? b_ver b) eqn:C; inversion F'; subst.
      * apply N.ltb_lt in C. cbn [bupd be_ver]. split; lia.
      * split; [lia|reflexivity].
    + rewrite F in F'. inversion F'; subst. split; [lia|reflexivity].
  - cbn [bstep fst] in F'. unfold delete_beacon in F'.
    rewrite kfind_filter in F' by exact W. rewrite F in F'.
    destruct (negb (prefix_b p (be_id e))); inversion F'; subst. split; [lia|reflexivity].
  - cbn [bstep delete_expired_beacons fst] in F'.
    rewrite kfind_filter in F' by exact W. rewrite F in F'.
    destruct (negb (be_exp e <? now)); inversion F'; subst. split; [lia|reflexivity].
Qed.

(** histories *)
Lemma brun_from_ind (P : bacc -> Prop) :
  (forall a o, P a -> P (bexec a o)) -> forall ops a, P a -> P (brun_from a ops).
Proof.
  intros Hs. unfold brun_from. induction ops as [|o t IH]; intros a Ha; cbn [fold_left]; auto.
Qed.

Lemma bexec_db a o : bdb (bexec a o) = fst (bstep (fst (fst a)) (bdb a) o).
Proof.
  destruct a as [[tick db] rs]. unfold bexec, bdb. cbn [fst snd].
  now destruct (bstep tick db o).
Qed.

Lemma brun_snoc ops o : brun (ops ++ [o]) = bexec (brun ops) o.
Proof. unfold brun, brun_from. now rewrite fold_left_app. Qed.

Lemma brun_wf ops : bwf (bdb (brun ops)).
Proof.
  unfold brun. apply (brun_from_ind (fun a => bwf (bdb a))).
  - intros a o H. rewrite bexec_db. now apply bstep_wf.
  - constructor.
Qed.

(** ** ORDER BY *)
Definition hops_before (x e : bentry) : bool := be_hops x <? be_hops e.
Definition lu_before (x e : bentry) : bool := be_lu e <? be_lu x.

Lemma insert_hops_ins e l : insert_hops e l = ins hops_before e l.
Proof. induction l as [|x t IH]; cbn; [reflexivity|]. unfold hops_before at 1. now rewrite IH. Qed.
Lemma sort_hops_isort l : sort_hops l = isort hops_before l.
Proof.
  unfold sort_hops, isort. induction l as [|x t IH]; cbn; [reflexivity|].
  now rewrite IH, insert_hops_ins.
Qed.
Lemma insert_lu_ins e l : insert_lu e l = ins lu_before e l.
Proof. induction l as [|x t IH]; cbn; [reflexivity|]. unfold lu_before at 1. now rewrite IH. Qed.
Lemma sort_lu_isort l : sort_lu l = isort lu_before l.
Proof.
  unfold sort_lu, isort. induction l as [|x t IH]; cbn; [reflexivity|].
  now rewrite IH, insert_lu_ins.
Qed.

Lemma hops_asym x y : hops_before x y = true -> hops_before y x = false.
Proof. unfold hops_before. rewrite N.ltb_lt, N.ltb_ge. lia. Qed.
Lemma hops_trans x y z : ord hops_before x y -> ord hops_before y z -> ord hops_before x z.
Proof. unfold ord, hops_before. rewrite !N.ltb_ge. lia. Qed.
Lemma hops_ord x y : ord hops_before x y <-> be_hops x <= be_hops y.
Proof. unfold ord, hops_before. now rewrite N.ltb_ge. Qed.
Lemma lu_asym x y : lu_before x y = true -> lu_before y x = false.
Proof. unfold lu_before. rewrite N.ltb_lt, N.ltb_ge. lia. Qed.
Lemma lu_trans x y z : ord lu_before x y -> ord lu_before y z -> ord lu_before x z.
Proof. unfold ord, lu_before. rewrite !N.ltb_ge. lia. Qed.
Lemma lu_ord x y : ord lu_before x y <-> be_lu y <= be_lu x.
Proof. unfold ord, lu_before. now rewrite N.ltb_ge. Qed.

(** ** CandidateBeacons *)
Lemma candidates_spec n u src db :
  let m := filter (cand_match u src) db in
  let r := candidate_beacons n u src db in
  StronglySorted (fun x y => be_hops x <= be_hops y) r
  /\ (length r <= N.to_nat n)%nat
  /\ length r = Nat.min (N.to_nat n) (length m)
  /\ (forall e, In e r -> In e db /\ usage_has (be_usage e) u = true /\ src_ok src e = true)
  /\ (forall x, In x m -> ~ In x r -> forall y, In y r -> be_hops y <= be_hops x)
  /\ (bwf db -> NoDup (map be_id r)).
Proof.
  intros m r. subst r. unfold candidate_beacons. fold m. rewrite sort_hops_isort.
  pose proof (isort_perm hops_before m) as P.
  pose proof (isort_sorted hops_before hops_asym hops_trans m) as S.
  set (s := isort hops_before m) in *.
  split; [|split; [|split; [|split; [|split]]]].
  - pose proof (sorted_firstn hops_before (N.to_nat n) s S) as S'.
    induction S' as [|x t S' IH F]; constructor; [exact IH|].
    rewrite Forall_forall in *. intros y Hy. apply hops_ord. now apply F.
  - apply firstn_le_length.
  - rewrite firstn_length. now rewrite (Permutation_length P).
  - intros e He. assert (Hs : In e s).
    { rewrite <- (firstn_skipn (N.to_nat n) s). apply in_or_app. now left. }
    apply (Permutation_in _ P) in Hs. subst m. apply filter_In in Hs as [H1 H2].
    unfold cand_match in H2. apply andb_true_iff in H2. tauto.
  - intros x Hx Hn y Hy. apply hops_ord.
    apply (sorted_split hops_before (N.to_nat n) s y x S Hy).
    apply (Permutation_in _ (Permutation_sym P)) in Hx.
    rewrite <- (firstn_skipn (N.to_nat n) s) in Hx. apply in_app_or in Hx as [Hx|Hx]; tauto.
  - intros W. rewrite <- firstn_map. apply nodup_firstn.
    apply (Permutation_NoDup (Permutation_map be_id (Permutation_sym P))).
    subst m. now apply nodup_map_filter.
Qed.

Lemma resolve_model db r :
  bwf db -> (forall e, In e r -> In e db) -> resolve db (map crow_of r) = Some r.
Proof.
  intros W. induction r as [|e t IH]; intros H; cbn; [reflexivity|].
  rewrite (kfind_in be_id db e W) by (apply H; now left).
  rewrite IH by (intros x Hx; apply H; now right). now rewrite !N.eqb_refl.
Qed.

Lemma sorted_hops_true l :
  StronglySorted (fun x y => be_hops x <= be_hops y) l -> sorted_hops l = true.
Proof.
  induction 1 as [|x t S IH F]; cbn; [reflexivity|]. rewrite IH, andb_true_r.
  apply forallb_forall. intros y Hy. rewrite Forall_forall in F. apply N.leb_le. now apply F.
Qed.

Lemma cands_ok_model n u src db :
  bwf db -> cands_ok db n u src (map crow_of (candidate_beacons n u src db)) = true.
Proof.
  intros W. destruct (candidates_spec n u src db) as [S [L1 [L2 [M [R D]]]]].
  unfold cands_ok. rewrite resolve_model; [|exact W|intros e He; now apply M].
  set (r := candidate_beacons n u src db) in *.
  rewrite !andb_true_iff. repeat split.
  - apply forallb_forall. intros e He. destruct (M e He) as [_ [A B]].
    unfold cand_match. now rewrite A, B.
  - apply nodup_by_NoDup; [exact id_eqb_eq|now apply D].
  - now apply sorted_hops_true.
  - apply N.eqb_eq. rewrite L2. lia.
  - apply forallb_forall. intros x Hx.
    destruct (mem_by id_eqb (be_id x) (map be_id r)) eqn:E; [reflexivity|]. cbn [orb].
    apply forallb_forall. intros y Hy. apply N.leb_le. apply (R x Hx); [|exact Hy].
    intros Hin. assert (T : mem_by id_eqb (be_id x) (map be_id r) = true).
    { apply mem_by_In; [exact id_eqb_eq|]. now apply in_map. }
    congruence.
Qed.

(** ** GetBeacons *)
Lemma get_beacons_spec p db :
  Permutation (get_beacons p db) (filter (bmatch p) db)
  /\ StronglySorted (fun x y => be_lu y <= be_lu x) (get_beacons p db).
Proof.
  unfold get_beacons. rewrite sort_lu_isort. split; [apply isort_perm|].
  pose proof (isort_sorted lu_before lu_asym lu_trans (filter (bmatch p) db)) as S.
  induction S as [|x t S IH F]; constructor; [exact IH|].
  rewrite Forall_forall in *. intros y Hy. apply lu_ord. now apply F.
Qed.

Lemma desc_lu_true l :
  StronglySorted (fun x y => be_lu y <= be_lu x) l -> desc_lu (map brow_of l) = true.
Proof.
  induction 1 as [|x t S IH F]; cbn; [reflexivity|]. rewrite IH, andb_true_r.
  apply forallb_forall. intros r Hr. apply in_map_iff in Hr as [y [<- Hy]].
  cbn [brow_of snd]. rewrite Forall_forall in F. apply N.leb_le. now apply F.
Qed.

Lemma brow_of_id_inj (l : list bentry) : NoDup (map be_id l) -> NoDup (map brow_of l).
Proof.
  induction l as [|x t IH]; cbn; intros W; [constructor|].
  inversion W as [|? ? Hn W']; subst. constructor; [|now apply IH].
  intros H. apply Hn. apply in_map_iff in H as [y [E Hy]]. apply in_map_iff. exists y.
  split; [|exact Hy]. unfold brow_of in E. now inversion E.
Qed.

Lemma get_rows_same_set p db :
  bwf db ->
  same_set brow_eqb (map brow_of (get_beacons p db)) (map brow_of (filter (bmatch p) db)) = true.
Proof.
  intros W. destruct (get_beacons_spec p db) as [P _].
  apply (same_set_iff brow_eqb brow_eqb_eq). split.
  - apply brow_of_id_inj. apply (Permutation_NoDup (Permutation_map be_id (Permutation_sym P))).
    now apply nodup_map_filter.
  - intros x. split; apply Permutation_in; [|apply Permutation_sym]; now apply Permutation_map.
Qed.

(** ** BeaconSources *)
Lemma mem_ia_In x l : mem_ia x l = true <-> In x l.
Proof.
  induction l as [|y t IH]; cbn; [split; [discriminate|tauto]|].
  rewrite orb_true_iff, IH, ia_eqb_eq. tauto.
Qed.
Lemma dedup_ia_spec l : NoDup (dedup_ia l) /\ forall x, In x (dedup_ia l) <-> In x l.
Proof.
  induction l as [|y t [N1 I1]]; cbn; [split; [constructor|tauto]|].
  destruct (mem_ia y (dedup_ia t)) eqn:E.
  - split; [exact N1|]. intros x. rewrite I1. apply mem_ia_In in E. apply I1 in E.
    split; [tauto|]. intros [<-|H]; tauto.
  - split.
    + constructor; [|exact N1]. intros H. apply mem_ia_In in H. congruence.
    + intros x. cbn. rewrite I1. tauto.
Qed.
Lemma sources_same_set db : same_set ia_eqb (beacon_sources db) (map be_start db) = true.
Proof.
  apply (same_set_iff ia_eqb ia_eqb_eq). unfold beacon_sources.
  destruct (dedup_ia_spec (map be_start db)) as [A B]. split; [exact A|exact B].
Qed.

(** ** every result of the model is what the property prescribes *)
Lemma list_eqb_refl {A} (eqb : A -> A -> bool) (R : forall x, eqb x x = true) l :
  list_eqb eqb l l = true.
Proof. induction l as [|x t IH]; cbn; [reflexivity|now rewrite R, IH]. Qed.

Lemma brow_eqb_refl x : brow_eqb x x = true.
Proof. now apply brow_eqb_eq. Qed.

Lemma bres_ok_model tick db o : bwf db -> bres_ok tick db o (snd (bstep tick db o)) = true.
Proof.
  intros W. destruct o as [b u|p|now|n u src| |ord p]; cbn [bstep].
  - unfold insert_beacon. destruct (kfind be_id (b_id b) db) as [e|] eqn:F.
    + destruct (be_ver e <? b_ver b) eqn:C; cbn [fst snd bres_ok]; now rewrite F, ?C.
    + cbn [fst snd bres_ok]. now rewrite F.
  - cbn [snd bres_ok]. apply N.eqb_refl.
  - cbn [delete_expired_beacons fst snd bres_ok]. apply N.eqb_refl.
  - cbn [snd bres_ok]. now apply cands_ok_model.
  - cbn [snd bres_ok]. apply sources_same_set.
  - cbn [snd bres_ok]. destruct (get_beacons_spec p db) as [_ S].
    rewrite (desc_lu_true _ S), orb_true_r. cbn [andb]. now apply get_rows_same_set.
Qed.

Lemma bres_agree_model tick db o :
  bwf db -> bres_agree db o (snd (bstep tick db o)) (snd (bstep tick db o)) = true.
Proof.
  intros W. destruct o as [b u|p|now|n u src| |ord p]; cbn [bstep].
  - destruct (insert_beacon tick b u db) as [db' st]. cbn [snd bres_agree]. now rewrite !N.eqb_refl.
  - cbn [snd bres_agree]. apply N.eqb_refl.
  - cbn [delete_expired_beacons fst snd bres_agree]. apply N.eqb_refl.
  - cbn [snd bres_agree]. rewrite (list_eqb_refl N.eqb N.eqb_refl). now apply cands_ok_model.
  - cbn [snd bres_agree]. apply (same_set_refl ia_eqb ia_eqb_eq). apply dedup_ia_spec.
  - cbn [snd bres_agree]. destruct ord.
    + apply (list_eqb_refl brow_eqb brow_eqb_refl).
    + apply (same_set_refl brow_eqb brow_eqb_eq). apply brow_of_id_inj.
      destruct (get_beacons_spec p db) as [P _].
      apply (Permutation_NoDup (Permutation_map be_id (Permutation_sym P))).
      now apply nodup_map_filter.
Qed.

(** chronological results of a history *)
Fixpoint btrace (tick : N) (db : beacon_db) (ops : list bop) : list bres :=
  match ops with
  | [] => []
  | o :: t => snd (bstep tick db o) :: btrace (tick + 1) (fst (bstep tick db o)) t
  end.

Lemma brun_from_trace ops : forall tick db rs,
  snd (brun_from (tick, db, rs) ops) = rev (btrace tick db ops) ++ rs.
Proof.
  unfold brun_from. induction ops as [|o t IH]; intros tick db rs; cbn [fold_left btrace]; [reflexivity|].
  unfold bexec at 2. destruct (bstep tick db o) as [db' r] eqn:E. cbn [fst snd].
  rewrite IH. cbn [rev]. now rewrite <- app_assoc.
Qed.

Lemma bresults_trace ops : bresults ops = btrace 0 [] ops.
Proof.
  unfold bresults, brun. rewrite brun_from_trace, app_nil_r. apply rev_involutive.
Qed.

Lemma bhist_model ops : forall tick db,
  bwf db ->
  bhist_ok tick db ops (btrace tick db ops) = true /\
  bhist_agree tick db ops (btrace tick db ops) = true.
Proof.
  induction ops as [|o t IH]; intros tick db W; cbn [bhist_ok bhist_agree btrace]; [auto|].
  pose proof (bres_ok_model tick db o W) as A. pose proof (bres_agree_model tick db o W) as B.
  pose proof (bstep_wf tick db o W) as W'.
  destruct (bstep tick db o) as [db' r]. cbn [fst snd] in *.
  destruct (IH (tick + 1) db' W') as [I1 I2]. now rewrite A, B, I1, I2.
Qed.

(** * Path-segment store *)

(** ** sets of numbers *)
Lemma add_n_in x l y : In y (add_n x l) <-> y = x \/ In y l.
Proof.
  induction l as [|z t IH]; cbn; [intuition|].
  destruct (x <? z); cbn; [intuition|]. destruct (x =? z) eqn:E; cbn.
  - apply N.eqb_eq in E. subst. intuition.
  - rewrite IH. intuition.
Qed.

Lemma add_n_sorted x l : StronglySorted N.lt l -> StronglySorted N.lt (add_n x l).
Proof.
  induction l as [|z t IH]; cbn; intros S; [repeat constructor|].
  inversion S as [|? ? S' F]; subst. destruct (x <? z) eqn:C.
  - apply N.ltb_lt in C. constructor; [exact S|]. constructor; [exact C|].
    rewrite Forall_forall in *. intros y Hy. specialize (F y Hy). lia.
  - destruct (x =? z) eqn:E; [exact S|]. apply N.ltb_ge in C. apply N.eqb_neq in E.
    constructor; [now apply IH|]. rewrite Forall_forall in *. intros y Hy.
    apply add_n_in in Hy as [->|Hy]; [lia|now apply F].
Qed.

Lemma sorted_lt_nodup l : StronglySorted N.lt l -> NoDup l.
Proof.
  induction 1 as [|x t S IH F]; constructor; [|exact IH].
  intros H. rewrite Forall_forall in F. specialize (F x H). lia.
Qed.

Lemma union_n_spec xs : forall l,
  (StronglySorted N.lt l -> StronglySorted N.lt (union_n xs l)) /\
  (forall y, In y (union_n xs l) <-> In y xs \/ In y l).
Proof.
  unfold union_n. induction xs as [|x t IH]; intros l; cbn [fold_left].
  { split; [auto|]. intros y. cbn. tauto. }
  destruct (IH (add_n x l)) as [A B]. split.
  - intros S. apply A. now apply add_n_sorted.
  - intros y. rewrite B, add_n_in. cbn. intuition.
Qed.

Definition pgood (e : pentry) : Prop :=
  StronglySorted N.lt (pe_types e) /\ StronglySorted N.lt (pe_groups e).
Definition pwf (db : seg_db) : Prop := NoDup (map pe_id db) /\ Forall pgood db.

Lemma insert_seg_find tick s ty gs db id :
  kfind pe_id id (fst (insert_seg tick s ty gs db)) =
  if id_eqb (s_id s) id then
    match kfind pe_id (s_id s) db with
    | None => Some (pnew tick s ty gs)
    | Some e => if pe_ver e <? s_ver s then Some (pupd tick s ty gs e) else Some e
    end
  else kfind pe_id id db.
Proof.
  unfold insert_seg. destruct (kfind pe_id (s_id s) db) as [e|] eqn:F.
  - pose proof (kfind_some pe_id _ _ _ F) as [_ Ke].
    destruct (pe_ver e <? s_ver s); cbn [fst].
    + rewrite kfind_kreplace. cbn [pupd pe_id]. rewrite Ke.
      destruct (id_eqb (s_id s) id) eqn:K; [|reflexivity].
      apply id_eqb_eq in K. subst id. now rewrite F.
    + destruct (id_eqb (s_id s) id) eqn:K; [|reflexivity].
      apply id_eqb_eq in K. now subst id.
  - cbn [fst]. rewrite kfind_app. cbn [pnew pe_id].
    destruct (id_eqb (s_id s) id) eqn:K.
    + apply id_eqb_eq in K. subst id. now rewrite F.
    + now destruct (kfind pe_id id db).
Qed.

Lemma in_kreplace {E} (key : E -> segid) e' l x :
  In x (kreplace key e' l) -> x = e' \/ In x l.
Proof.
  induction l as [|y t IH]; cbn; [tauto|]. destruct (id_eqb (key y) (key e')); cbn; intuition.
Qed.

Lemma pnew_good tick s ty gs : pgood (pnew tick s ty gs).
Proof.
  split; cbn [pnew pe_types pe_groups]; [repeat constructor|].
  apply union_n_spec. constructor.
Qed.

Lemma pupd_good tick s ty gs e : pgood e -> pgood (pupd tick s ty gs e).
Proof.
  intros [A B]. split; cbn [pupd pe_types pe_groups]; [now apply add_n_sorted|].
  now apply union_n_spec.
Qed.

Lemma insert_seg_wf tick s ty gs db : pwf db -> pwf (fst (insert_seg tick s ty gs db)).
Proof.
  intros [W G]. unfold insert_seg. destruct (kfind pe_id (s_id s) db) as [e|] eqn:F.
  - destruct (pe_ver e <? s_ver s); cbn [fst]; [|now split]. split.
    + now rewrite map_key_kreplace.
    + rewrite Forall_forall in *. intros x Hx. apply in_kreplace in Hx as [->|Hx]; [|now apply G].
      apply pupd_good. apply G. now apply (kfind_some pe_id _ _ _ F).
  - cbn [fst]. split; [now apply nodup_key_app|].
    apply Forall_app. split; [exact G|]. constructor; [apply pnew_good|constructor].
Qed.

Lemma forall_filter {X} (P : X -> Prop) f l : Forall P l -> Forall P (filter f l).
Proof.
  rewrite !Forall_forall. intros H x Hx. apply filter_In in Hx. now apply H.
Qed.

Lemma pstep_segs_insert tick st s ty gs :
  segs (fst (pstep tick st (PInsert s ty gs))) = fst (insert_seg tick s ty gs (segs st)).
Proof. cbn. now destruct (insert_seg tick s ty gs (segs st)). Qed.

Lemma pstep_wf tick st o : pwf (segs st) -> pwf (segs (fst (pstep tick st o))).
Proof.
  intros W. destruct o as [s ty gs|p|now|p|src dst t|src dst].
  - rewrite pstep_segs_insert. now apply insert_seg_wf.
  - cbn. destruct W as [W G]. split; [now apply nodup_key_filter|now apply forall_filter].
  - cbn. destruct W as [W G]. split; [now apply nodup_key_filter|now apply forall_filter].
  - exact W.
  - cbn. now destruct (insert_nq src dst t (nqs st)).
  - exact W.
Qed.

(** version never decreases; types and groups only accumulate *)
Lemma pstep_version_mono tick st o id e e' :
  pwf (segs st) -> kfind pe_id id (segs st) = Some e ->
  kfind pe_id id (segs (fst (pstep tick st o))) = Some e' ->
  pe_ver e <= pe_ver e' /\ (pe_ver e = pe_ver e' -> e' = e) /\
  incl (pe_types e) (pe_types e') /\ incl (pe_groups e) (pe_groups e').
Proof.
  intros [W _] F F'.
  assert (Same : Some e = Some e' ->
    pe_ver e <= pe_ver e' /\ (pe_ver e = pe_ver e' -> e' = e) /\
    incl (pe_types e) (pe_types e') /\ incl (pe_groups e) (pe_groups e')).
  { intros H; inversion H; subst. repeat split; try lia; try apply incl_refl. }
  destruct o as [s ty gs|p|now|p|src dst t|src dst].
  - rewrite pstep_segs_insert, insert_seg_find in F'.
    destruct (id_eqb (s_id s) id) eqn:K; [|rewrite F in F'; now apply Same].
    apply id_eqb_eq in K. subst id. rewrite F in F'.
    destruct (pe_ver e <? s_ver s) eqn:C; [|now apply Same].
    inversion F'; subst. apply N.ltb_lt in C. cbn [pupd pe_ver pe_types pe_groups].
    repeat split; try lia.
    + intros y Hy. apply add_n_in. now right.
    + intros y Hy. apply union_n_spec. now right.
  - cbn [pstep fst segs] in F'. unfold delete_segment in F'.
    rewrite kfind_filter in F' by exact W. rewrite F in F'.
    destruct (negb (prefix_b p (pe_id e))); [now apply Same|discriminate].
  - cbn [pstep delete_expired_segs fst segs] in F'.
    rewrite kfind_filter in F' by exact W. rewrite F in F'.
    destruct (negb (pe_exp e <? now)); [now apply Same|discriminate].
  - cbn in F'. rewrite F in F'. now apply Same.
  - cbn [pstep] in F'. destruct (insert_nq src dst t (nqs st)). cbn in F'. rewrite F in F'. now apply Same.
  - cbn in F'. rewrite F in F'. now apply Same.
Qed.

(** ** Get *)
Lemma get_segs_in p db row :
  In row (get_segs p db) <->
  exists e t, In e db /\ pmatch p e = true /\ sel (g_groups p) (pe_groups e) <> [] /\
              In t (sel (g_types p) (pe_types e)) /\
              row = (pe_id e, pe_pay e, t, sel (g_groups p) (pe_groups e), pe_lu e).
Proof.
  unfold get_segs. rewrite in_flat_map. split.
  - intros [e [He Hr]]. unfold rows_of in Hr. destruct (pmatch p e) eqn:M; [|destruct Hr].
    destruct (sel (g_groups p) (pe_groups e)) as [|g gs] eqn:G; [destruct Hr|].
    apply in_map_iff in Hr as [t [<- Ht]]. exists e, t.
    split; [exact He|]. split; [exact M|]. split; [rewrite G; discriminate|].
    split; [exact Ht|]. now rewrite G.
  - intros [e [t [He [M [G [Ht ->]]]]]]. exists e. split; [exact He|]. unfold rows_of. rewrite M.
    destruct (sel (g_groups p) (pe_groups e)) as [|g gs] eqn:G'; [congruence|].
    apply in_map_iff. exists t. auto.
Qed.

Lemma nodup_app_intro {X} (a b : list X) :
  NoDup a -> NoDup b -> (forall x, In x a -> ~ In x b) -> NoDup (a ++ b).
Proof.
  induction a as [|x t IH]; cbn; intros Na Nb D; [exact Nb|].
  inversion Na as [|? ? Hn Na']; subst. constructor.
  - intros H. apply in_app_or in H as [H|H]; [contradiction|]. apply (D x); [now left|exact H].
  - apply IH; auto.
Qed.

Lemma sel_nodup want have : NoDup have -> NoDup (sel want have).
Proof. unfold sel. destruct want; [auto|]. apply NoDup_filter. Qed.

Lemma rows_of_nodup p e : pgood e -> NoDup (rows_of p e).
Proof.
  intros [T _]. unfold rows_of. destruct (pmatch p e); [|constructor].
  destruct (sel (g_groups p) (pe_groups e)) as [|g gs]; [constructor|].
  pose proof (sel_nodup (g_types p) _ (sorted_lt_nodup _ T)) as Nd.
  induction Nd as [|t l Hn Nd IH]; cbn; constructor; [|exact IH].
  intros H. apply in_map_iff in H as [t' [E Ht']]. inversion E; subst. contradiction.
Qed.

Lemma rows_of_id p e row : In row (rows_of p e) -> fst (fst (fst (fst row))) = pe_id e.
Proof.
  unfold rows_of. destruct (pmatch p e); [|intros []].
  destruct (sel (g_groups p) (pe_groups e)); [intros []|].
  intros H. apply in_map_iff in H as [t [<- _]]. reflexivity.
Qed.

Lemma get_segs_nodup p db : pwf db -> NoDup (get_segs p db).
Proof.
  intros [W G]. unfold get_segs. induction db as [|e t IH]; cbn; [constructor|].
  inversion W as [|? ? Hn W']; subst. inversion G as [|? ? Ge G']; subst.
  apply nodup_app_intro; [now apply rows_of_nodup|now apply IH|].
  intros row H1 H2. apply rows_of_id in H1. apply in_flat_map in H2 as [e' [He' H2]].
  apply rows_of_id in H2. apply Hn. apply in_map_iff. exists e'. split; [congruence|exact He'].
Qed.

(** ** NextQuery *)
Lemma nq_find_set s d s' d' t l :
  nq_find s d (nq_set s' d' t l) =
  if ia_eqb s' s && ia_eqb d' d then Some t else nq_find s d l.
Proof.
  induction l as [|[[s0 d0] t0] r IH]; cbn.
  - destruct (ia_eqb s' s && ia_eqb d' d) eqn:E; reflexivity.
  - destruct (ia_eqb s0 s' && ia_eqb d0 d') eqn:M; cbn.
    + apply andb_true_iff in M as [M1 M2]. apply ia_eqb_eq in M1, M2. subst s0 d0.
      now destruct (ia_eqb s' s && ia_eqb d' d).
    + destruct (ia_eqb s0 s && ia_eqb d0 d) eqn:M2; [|exact IH].
      apply andb_true_iff in M2 as [A B]. apply ia_eqb_eq in A, B. subst s0 d0.
      assert (X : ia_eqb s' s && ia_eqb d' d = false).
      { destruct (ia_eqb s' s) eqn:A; [|reflexivity]. destruct (ia_eqb d' d) eqn:B; [|reflexivity].
        apply ia_eqb_eq in A, B. subst. rewrite (proj2 (ia_eqb_eq s s) eq_refl) in M.
        rewrite (proj2 (ia_eqb_eq d d) eq_refl) in M. discriminate. }
      now rewrite X.
Qed.

(** the stored next-query time after InsertNextQuery is the maximum *)
Definition omax (o : option N) (t : N) : option N :=
  match o with None => Some t | Some v => Some (N.max v t) end.

Lemma insert_nq_find src dst t l s d :
  nq_find s d (fst (insert_nq src dst t l)) =
  if ia_eqb src s && ia_eqb dst d then omax (nq_find src dst l) t else nq_find s d l.
Proof.
  unfold insert_nq. destruct (nq_find src dst l) as [t0|] eqn:F.
  - destruct (t0 <? t) eqn:C; cbn [fst].
    + rewrite nq_find_set. destruct (ia_eqb src s && ia_eqb dst d); [|reflexivity].
      cbn. apply N.ltb_lt in C. f_equal. lia.
    + destruct (ia_eqb src s && ia_eqb dst d) eqn:M; [|reflexivity].
      apply andb_true_iff in M as [A B]. apply ia_eqb_eq in A, B. subst. rewrite F. cbn.
      apply N.ltb_ge in C. f_equal. lia.
  - cbn [fst]. rewrite nq_find_set. now destruct (ia_eqb src s && ia_eqb dst d).
Qed.

Lemma insert_nq_result src dst t l :
  snd (insert_nq src dst t l) =
  match nq_find src dst l with None => true | Some t0 => t0 <? t end.
Proof.
  unfold insert_nq. destruct (nq_find src dst l) as [t0|]; [|reflexivity]. now destruct (t0 <? t).
Qed.

(** ** every result of the model is what the property prescribes *)
Lemma prow_eqb_refl x : prow_eqb x x = true.
Proof. now apply prow_eqb_eq. Qed.

Lemma pres_ok_model tick st o : pwf (segs st) -> pres_ok tick st o (snd (pstep tick st o)) = true.
Proof.
  intros W. destruct o as [s ty gs|p|now|p|src dst t|src dst]; cbn [pstep].
  - unfold insert_seg. destruct (kfind pe_id (s_id s) (segs st)) as [e|] eqn:F.
    + destruct (pe_ver e <? s_ver s) eqn:C; cbn [fst snd pres_ok]; now rewrite F, ?C.
    + cbn [fst snd pres_ok]. now rewrite F.
  - cbn [snd pres_ok]. apply N.eqb_refl.
  - cbn [delete_expired_segs fst snd pres_ok]. apply N.eqb_refl.
  - cbn [snd pres_ok]. apply (same_set_refl prow_eqb prow_eqb_eq). now apply get_segs_nodup.
  - pose proof (insert_nq_result src dst t (nqs st)) as R.
    destruct (insert_nq src dst t (nqs st)) as [l' b]. cbn [snd] in *. cbn [pres_ok]. subst b.
    apply eqb_reflx.
  - cbn [snd pres_ok]. destruct (nq_find src dst (nqs st)); cbn; [apply N.eqb_refl|reflexivity].
Qed.

Lemma pres_agree_model tick st o :
  pwf (segs st) -> pres_agree (snd (pstep tick st o)) (snd (pstep tick st o)) = true.
Proof.
  intros W. destruct o as [s ty gs|p|now|p|src dst t|src dst]; cbn [pstep].
  - destruct (insert_seg tick s ty gs (segs st)). cbn [snd pres_agree]. now rewrite !N.eqb_refl.
  - cbn [snd pres_agree]. apply N.eqb_refl.
  - cbn [delete_expired_segs fst snd pres_agree]. apply N.eqb_refl.
  - cbn [snd pres_agree]. apply (same_set_refl prow_eqb prow_eqb_eq). now apply get_segs_nodup.
  - destruct (insert_nq src dst t (nqs st)). cbn [snd pres_agree]. apply eqb_reflx.
  - cbn [snd pres_agree]. destruct (nq_find src dst (nqs st)); cbn; [apply N.eqb_refl|reflexivity].
Qed.

Fixpoint ptrace (tick : N) (st : pstate) (ops : list pop) : list pres :=
  match ops with
  | [] => []
  | o :: t => snd (pstep tick st o) :: ptrace (tick + 1) (fst (pstep tick st o)) t
  end.

Lemma prun_from_trace ops : forall tick st rs,
  snd (prun_from (tick, st, rs) ops) = rev (ptrace tick st ops) ++ rs.
Proof.
  unfold prun_from. induction ops as [|o t IH]; intros tick st rs; cbn [fold_left ptrace]; [reflexivity|].
  unfold pexec at 2. destruct (pstep tick st o) as [st' r] eqn:E. cbn [fst snd].
  rewrite IH. cbn [rev]. now rewrite <- app_assoc.
Qed.

Lemma presults_trace ops : presults ops = ptrace 0 {| segs := []; nqs := [] |} ops.
Proof.
  unfold presults, prun. rewrite prun_from_trace, app_nil_r. apply rev_involutive.
Qed.

Lemma phist_model ops : forall tick st,
  pwf (segs st) ->
  phist_ok tick st ops (ptrace tick st ops) = true /\
  phist_agree tick st ops (ptrace tick st ops) = true.
Proof.
  induction ops as [|o t IH]; intros tick st W; cbn [phist_ok phist_agree ptrace]; [auto|].
  pose proof (pres_ok_model tick st o W) as A. pose proof (pres_agree_model tick st o W) as B.
  pose proof (pstep_wf tick st o W) as W'.
  destruct (pstep tick st o) as [st' r]. cbn [fst snd] in *.
  destruct (IH (tick + 1) st' W') as [I1 I2]. now rewrite A, B, I1, I2.
Qed.

(** histories *)
Lemma prun_from_ind (P : pacc -> Prop) :
  (forall a o, P a -> P (pexec a o)) -> forall ops a, P a -> P (prun_from a ops).
Proof.
  intros Hs. unfold prun_from. induction ops as [|o t IH]; intros a Ha; cbn [fold_left]; auto.
Qed.

Lemma pexec_st a o : pst (pexec a o) = fst (pstep (fst (fst a)) (pst a) o).
Proof.
  destruct a as [[tick st] rs]. unfold pexec, pst. cbn [fst snd]. now destruct (pstep tick st o).
Qed.

Lemma prun_snoc ops o : prun (ops ++ [o]) = pexec (prun ops) o.
Proof. unfold prun, prun_from. now rewrite fold_left_app. Qed.

Lemma prun_wf ops : pwf (segs (pst (prun ops))).
Proof.
  unfold prun. apply (prun_from_ind (fun a => pwf (segs (pst a)))).
  - intros a o H. rewrite pexec_st. now apply pstep_wf.
  - split; constructor.
Qed.

(** the next-query time of a pair along a history: the running maximum of what was inserted *)
Definition nq_upd (src dst : ia) (acc : option N) (o : pop) : option N :=
  match o with
  | PInsertNQ s d t => if ia_eqb s src && ia_eqb d dst then omax acc t else acc
  | _ => acc
  end.

Lemma pstep_nq tick st o src dst :
  nq_find src dst (nqs (fst (pstep tick st o))) = nq_upd src dst (nq_find src dst (nqs st)) o.
Proof.
  destruct o as [s ty gs|p|now|p|s d t|s d]; cbn [pstep nq_upd]; try reflexivity.
  - now destruct (insert_seg tick s ty gs (segs st)).
  - pose proof (insert_nq_find s d t (nqs st) src dst) as F.
    destruct (insert_nq s d t (nqs st)) as [l' b]. cbn [fst nqs] in *. rewrite F.
    destruct (ia_eqb s src && ia_eqb d dst) eqn:M; [|reflexivity].
    apply andb_true_iff in M as [A B]. apply ia_eqb_eq in A, B. now subst.
Qed.

Lemma prun_nq ops src dst :
  nq_find src dst (nqs (pst (prun ops))) = fold_left (nq_upd src dst) ops None.
Proof.
  unfold prun.
  assert (G : forall a, nq_find src dst (nqs (pst (prun_from a ops))) =
                        fold_left (nq_upd src dst) ops (nq_find src dst (nqs (pst a)))).
  { unfold prun_from. induction ops as [|o t IH]; intros a; cbn [fold_left]; [reflexivity|].
    rewrite IH, pexec_st, pstep_nq. reflexivity. }
  now rewrite G.
Qed.
