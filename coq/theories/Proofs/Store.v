From Coq Require Import List NArith Bool Lia Permutation Sorted PeanoNat.
From Scion Require Import Lib.Check Model.Store.
Import ListNotations.
Import Store.
Local Open Scope N_scope.

(** * Equality tests *)

Lemma id_eqb_eq a b : id_eqb a b = true <-> a = b.
Proof. apply list_eqb_eq. intros; apply N.eqb_eq. Qed.
Lemma id_eqb_refl a : id_eqb a a = true.
Proof. now apply id_eqb_eq. Qed.
Lemma id_eqb_neq a b : id_eqb a b = false <-> a <> b.
Proof.
  split.
  - intros E H. apply id_eqb_eq in H. congruence.
  - intros H. destruct (id_eqb a b) eqn:E; [|reflexivity]. apply id_eqb_eq in E. contradiction.
Qed.

Lemma ia_eqb_eq a b : ia_eqb a b = true <-> a = b.
Proof.
  destruct a as [a1 a2], b as [b1 b2]. unfold ia_eqb. cbn [fst snd].
  rewrite andb_true_iff, !N.eqb_eq. split; [intros [-> ->]; reflexivity|].
  intros E; inversion E; auto.
Qed.

Lemma crow_eqb_eq a b : crow_eqb a b = true <-> a = b.
Proof.
  destruct a as [i p], b as [j q]. unfold crow_eqb. cbn [fst snd].
  rewrite andb_true_iff, id_eqb_eq, N.eqb_eq. split; [intros [-> ->]; reflexivity|].
  intros E; inversion E; auto.
Qed.

Lemma brow_eqb_eq a b : brow_eqb a b = true <-> a = b.
Proof.
  destruct a as [[[[i1 p1] f1] u1] l1], b as [[[[i2 p2] f2] u2] l2]. unfold brow_eqb.
  rewrite !andb_true_iff, id_eqb_eq, !N.eqb_eq. split.
  - intros [[[[-> ->] ->] ->] ->]. reflexivity.
  - intros E; inversion E; auto.
Qed.

Lemma prow_eqb_eq a b : prow_eqb a b = true <-> a = b.
Proof.
  destruct a as [[[[i1 p1] t1] g1] l1], b as [[[[i2 p2] t2] g2] l2]. unfold prow_eqb.
  rewrite !andb_true_iff, id_eqb_eq, !N.eqb_eq.
  assert (G : list_eqb N.eqb g1 g2 = true <-> g1 = g2) by (apply list_eqb_eq; intros; apply N.eqb_eq).
  rewrite G. split.
  - intros [[[[-> ->] ->] ->] ->]. reflexivity.
  - intros E; inversion E; auto.
Qed.

(** * Boolean set operations *)
Section SetOps.
  Context {A : Type} (eqb : A -> A -> bool) (eqb_eq : forall x y, eqb x y = true <-> x = y).

  Lemma mem_by_In x l : mem_by eqb x l = true <-> In x l.
  Proof.
    unfold mem_by. rewrite existsb_exists. split.
    - intros [y [H E]]. apply eqb_eq in E. now subst.
    - intros H. exists x. split; [exact H|now apply eqb_eq].
  Qed.

  Lemma incl_by_incl a b : incl_by eqb a b = true <-> incl a b.
  Proof.
    unfold incl_by. rewrite forallb_forall. unfold incl. split; intros H x Hx.
    - apply mem_by_In. now apply H.
    - apply mem_by_In. now apply H.
  Qed.

  Lemma nodup_by_NoDup l : nodup_by eqb l = true <-> NoDup l.
  Proof.
    induction l as [|x t IH]; cbn; [split; [constructor|reflexivity]|].
    rewrite andb_true_iff, negb_true_iff, IH. split.
    - intros [H1 H2]. constructor; [|exact H2]. intros H. apply mem_by_In in H. congruence.
    - intros H. inversion H as [|? ? Hn Hd]; subst. split; [|exact Hd].
      destruct (mem_by eqb x t) eqn:E; [|reflexivity]. apply mem_by_In in E. contradiction.
  Qed.

  Lemma same_set_refl l : NoDup l -> same_set eqb l l = true.
  Proof.
    intros H. unfold same_set. rewrite !andb_true_iff. repeat split.
    - now apply nodup_by_NoDup.
    - apply incl_by_incl. apply incl_refl.
    - apply incl_by_incl. apply incl_refl.
  Qed.

  Lemma same_set_iff a b :
    same_set eqb a b = true <-> NoDup a /\ (forall x, In x a <-> In x b).
  Proof.
    unfold same_set. rewrite !andb_true_iff, nodup_by_NoDup, !incl_by_incl. unfold incl.
    split.
    - intros [[H1 H2] H3]. split; [exact H1|]. intros x; split; auto.
    - intros [H1 H2]. repeat split; auto; intros x Hx; now apply H2.
  Qed.
End SetOps.

(** * Rows keyed by segment id *)
Section Keyed.
  Context {E : Type} (key : E -> segid).

  Lemma kfind_some id l e : kfind key id l = Some e -> In e l /\ key e = id.
  Proof.
    induction l as [|x t IH]; cbn; [discriminate|].
    destruct (id_eqb (key x) id) eqn:K.
    - intros H; inversion H; subst. split; [now left|now apply id_eqb_eq].
    - intros H. destruct (IH H). auto.
  Qed.

  Lemma kfind_none id l : kfind key id l = None <-> ~ In id (map key l).
  Proof.
    induction l as [|x t IH]; cbn; [tauto|].
    destruct (id_eqb (key x) id) eqn:K.
    - apply id_eqb_eq in K. split; [discriminate|]. intros H; elim H; now left.
    - apply id_eqb_neq in K. rewrite IH. tauto.
  Qed.

  Lemma kfind_in l e : NoDup (map key l) -> In e l -> kfind key (key e) l = Some e.
  Proof.
    induction l as [|x t IH]; cbn; [tauto|]. intros W [->|H].
    - now rewrite id_eqb_refl.
    - inversion W as [|? ? Hn W']; subst.
      destruct (id_eqb (key x) (key e)) eqn:K.
      + apply id_eqb_eq in K. elim Hn. rewrite K. now apply in_map.
      + now apply IH.
  Qed.

  Lemma map_key_kreplace e' l : map key (kreplace key e' l) = map key l.
  Proof.
    induction l as [|x t IH]; cbn; [reflexivity|].
    destruct (id_eqb (key x) (key e')) eqn:K; cbn.
    - apply id_eqb_eq in K. now rewrite K.
    - now rewrite IH.
  Qed.

  Lemma kfind_kreplace e' id l :
    kfind key id (kreplace key e' l) =
    if id_eqb (key e') id
    then match kfind key id l with Some _ => Some e' | None => None end
    else kfind key id l.
  Proof.
    induction l as [|x t IH]; cbn; [now destruct (id_eqb (key e') id)|].
    destruct (id_eqb (key x) (key e')) eqn:K; cbn.
    - apply id_eqb_eq in K. rewrite K. now destruct (id_eqb (key e') id).
    - destruct (id_eqb (key x) id) eqn:K2.
      + apply id_eqb_eq in K2. subst id.
        assert (K3 : id_eqb (key e') (key x) = false).
        { apply id_eqb_neq. apply id_eqb_neq in K. congruence. }
        now rewrite K3.
      + exact IH.
  Qed.

  Lemma kfind_app id l e :
    kfind key id (l ++ [e]) =
    match kfind key id l with
    | Some x => Some x
    | None => if id_eqb (key e) id then Some e else None
    end.
  Proof.
    induction l as [|x t IH]; cbn; [reflexivity|]. now destruct (id_eqb (key x) id).
  Qed.

  Lemma map_key_filter_in f (l : list E) k : In k (map key (filter f l)) -> In k (map key l).
  Proof.
    rewrite !in_map_iff. intros [x [H1 H2]]. exists x. apply filter_In in H2. tauto.
  Qed.

  Lemma nodup_key_filter f l : NoDup (map key l) -> NoDup (map key (filter f l)).
  Proof.
    induction l as [|x t IH]; cbn; [auto|]. intros W.
    inversion W as [|? ? Hn W']; subst. destruct (f x); cbn; [|now apply IH].
    constructor; [|now apply IH]. intros H. apply Hn. eapply map_key_filter_in; eauto.
  Qed.

  Lemma kfind_filter f id l :
    NoDup (map key l) ->
    kfind key id (filter f l) =
    match kfind key id l with Some e => if f e then Some e else None | None => None end.
  Proof.
    induction l as [|x t IH]; cbn; [reflexivity|]. intros W.
    inversion W as [|? ? Hn W']; subst.
    destruct (id_eqb (key x) id) eqn:K.
    - destruct (f x); cbn; [now rewrite K|].
      apply id_eqb_eq in K. subst. apply kfind_none. intros H. apply Hn.
      eapply map_key_filter_in; eauto.
    - destruct (f x); cbn; [rewrite K|]; now apply IH.
  Qed.

  Lemma nodup_snoc {X} (l : list X) x : NoDup l -> ~ In x l -> NoDup (l ++ [x]).
  Proof.
    induction l as [|y t IH]; cbn; intros W H; [constructor; [tauto|constructor]|].
    inversion W as [|? ? Hn W']; subst. constructor.
    - intros Hin. apply in_app_or in Hin as [Hin|[->|[]]]; [contradiction|]. apply H. now left.
    - apply IH; [exact W'|]. intros Hx. apply H. now right.
  Qed.

  Lemma nodup_key_app l e :
    NoDup (map key l) -> kfind key (key e) l = None -> NoDup (map key (l ++ [e])).
  Proof.
    intros W K. rewrite map_app. cbn. apply nodup_snoc; [exact W|]. now apply kfind_none.
  Qed.
End Keyed.

Lemma nodup_map_filter {X Y} (f : X -> Y) (g : X -> bool) l :
  NoDup (map f l) -> NoDup (map f (filter g l)).
Proof.
  induction l as [|x t IH]; cbn; [auto|]. intros W.
  inversion W as [|? ? Hn W']; subst. destruct (g x); cbn; [|now apply IH].
  constructor; [|now apply IH]. intros H. apply Hn.
  apply in_map_iff in H as [y [H1 H2]]. apply filter_In in H2 as [H2 _].
  apply in_map_iff. eauto.
Qed.

Lemma nodup_firstn {X} n (l : list X) : NoDup l -> NoDup (firstn n l).
Proof.
  revert l. induction n as [|n IH]; intros [|x t] W; cbn; try constructor.
  - inversion W as [|? ? Hn W']; subst. intros H. apply Hn.
    rewrite <- (firstn_skipn n t). apply in_or_app. now left.
  - inversion W; subst. now apply IH.
Qed.

(** * Generic insertion sort facts *)
Section Sorting.
  Context {X : Type} (before : X -> X -> bool).
  (** [before x e]: x has to stay in front of e *)
  Definition ord (x y : X) : Prop := before y x = false.
  Context (before_asym : forall x y, before x y = true -> before y x = false)
          (ord_trans : forall x y z, ord x y -> ord y z -> ord x z).

  Fixpoint ins (e : X) (l : list X) : list X :=
    match l with
    | [] => [e]
    | x :: t => if before x e then x :: ins e t else e :: l
    end.
  Definition isort (l : list X) : list X := fold_right ins [] l.

  Lemma ins_perm e l : Permutation (ins e l) (e :: l).
  Proof.
    induction l as [|x t IH]; cbn; [reflexivity|]. destruct (before x e); [|reflexivity].
    rewrite IH. apply perm_swap.
  Qed.

  Lemma isort_perm l : Permutation (isort l) l.
  Proof.
    induction l as [|x t IH]; cbn; [reflexivity|]. rewrite ins_perm. now constructor.
  Qed.

  Lemma ins_sorted e l : StronglySorted ord l -> StronglySorted ord (ins e l).
  Proof.
    induction l as [|x t IH]; cbn; intros S; [repeat constructor|].
    inversion S as [|? ? S' F]; subst. destruct (before x e) eqn:C.
    - constructor; [now apply IH|].
      apply Forall_forall. intros y Hy. apply (Permutation_in _ (ins_perm e t)) in Hy.
      destruct Hy as [<-|Hy]; [now apply before_asym|]. rewrite Forall_forall in F. now apply F.
    - constructor; [exact S|]. constructor; [exact C|].
      rewrite Forall_forall in *. intros y Hy. specialize (F y Hy). eapply ord_trans; eauto.
  Qed.

  Lemma isort_sorted l : StronglySorted ord (isort l).
  Proof. induction l as [|x t IH]; cbn; [constructor|now apply ins_sorted]. Qed.

  Lemma sorted_firstn n l : StronglySorted ord l -> StronglySorted ord (firstn n l).
  Proof.
    revert l. induction n as [|n IH]; intros [|x t] S; cbn; try constructor.
    - inversion S; subst. now apply IH.
    - inversion S as [|? ? S' F]; subst. rewrite Forall_forall in *. intros y Hy. apply F.
      rewrite <- (firstn_skipn n t). apply in_or_app. now left.
  Qed.

  Lemma sorted_split n l x y :
    StronglySorted ord l -> In x (firstn n l) -> In y (skipn n l) -> ord x y.
  Proof.
    revert l. induction n as [|n IH]; intros [|z t] S Hx Hy; cbn in *; try tauto.
    inversion S as [|? ? S' F]; subst. destruct Hx as [->|Hx].
    - rewrite Forall_forall in F. apply F. rewrite <- (firstn_skipn n t). apply in_or_app. now right.
    - now apply (IH t).
  Qed.
End Sorting.

(** * Beacon store *)

Definition bwf (db : beacon_db) : Prop := NoDup (map be_id db).

Lemma insert_beacon_find tick b u db id :
  kfind be_id id (fst (insert_beacon tick b u db)) =
  if id_eqb (b_id b) id then
    match kfind be_id (b_id b) db with
    | None => Some (bnew tick b u)
    | Some e => if be_ver e <? b_ver b then Some (bupd tick b u e) else Some e
    end
  else kfind be_id id db.
Proof.
  unfold insert_beacon. destruct (kfind be_id (b_id b) db) as [e|] eqn:F.
  - pose proof (kfind_some be_id _ _ _ F) as [_ Ke].
    destruct (be_ver e <? b_ver b); cbn [fst].
    + rewrite kfind_kreplace. cbn [bupd be_id]. rewrite Ke.
      destruct (id_eqb (b_id b) id) eqn:K; [|reflexivity].
      apply id_eqb_eq in K. subst id. now rewrite F.
    + destruct (id_eqb (b_id b) id) eqn:K; [|reflexivity].
      apply id_eqb_eq in K. now subst id.
  - cbn [fst]. rewrite kfind_app. cbn [bnew be_id].
    destruct (id_eqb (b_id b) id) eqn:K.
    + apply id_eqb_eq in K. subst id. now rewrite F.
    + now destruct (kfind be_id id db).
Qed.

Lemma bstep_insert_fst tick db b u :
  fst (bstep tick db (BInsert b u)) = fst (insert_beacon tick b u db).
Proof. cbn. now destruct (insert_beacon tick b u db). Qed.

Lemma bstep_wf tick db o : bwf db -> bwf (fst (bstep tick db o)).
Proof.
  unfold bwf. intros W. destruct o as [b u|p|now|n u src| |ord p]; try exact W.
  - rewrite bstep_insert_fst. unfold insert_beacon.
    destruct (kfind be_id (b_id b) db) as [e|] eqn:F.
    + destruct (be_ver e <? b_ver b); cbn [fst]; [|exact W]. now rewrite map_key_kreplace.
    + cbn [fst]. apply nodup_key_app; [exact W|exact F].
  - cbn. now apply nodup_key_filter.
  - cbn. now apply nodup_key_filter.
Qed.

(** the stored version of an identifier never decreases while it stays stored, and
    the stored row changes only when the version strictly increases *)
Lemma bstep_version_mono tick db o id e e' :
  bwf db -> kfind be_id id db = Some e -> kfind be_id id (fst (bstep tick db o)) = Some e' ->
  be_ver e <= be_ver e' /\ (be_ver e = be_ver e' -> e' = e).
Proof.
  intros W F F'. destruct o as [b u|p|now|n u src| |ord p];
    try (cbn in F'; rewrite F in F'; inversion F'; subst; split; [lia|reflexivity]).
  - rewrite bstep_insert_fst, insert_beacon_find in F'.
    destruct (id_eqb (b_id b) id) eqn:K.
    + apply id_eqb_eq in K. subst id. rewrite F in F'.
      destruct (be_ver e <? b_ver b) eqn:C; inversion F'; subst.
      * apply N.ltb_lt in C. cbn [bupd be_ver]. split; lia.
      * split; [lia|reflexivity].
    + rewrite F in F'. inversion F'; subst. split; [lia|reflexivity].
  - cbn [bstep fst] in F'. unfold delete_beacon in F'.
    rewrite kfind_filter in F' by exact W. rewrite F in F'.
    destruct (negb (prefix_b p (be_id e))); inversion F'; subst. split; [lia|reflexivity].
  - cbn [bstep delete_expired_beacons fst] in F'.
    rewrite kfind_filter in F' by exact W. rewrite F in F'.
    destruct (negb (be_exp e <? now)); inversion F'; subst. split; [lia|reflexivity].
Qed.

(** histories *)
Lemma brun_from_ind (P : bacc -> Prop) :
  (forall a o, P a -> P (bexec a o)) -> forall ops a, P a -> P (brun_from a ops).
Proof.
  intros Hs. unfold brun_from. induction ops as [|o t IH]; intros a Ha; cbn [fold_left]; auto.
Qed.

Lemma bexec_db a o : bdb (bexec a o) = fst (bstep (fst (fst a)) (bdb a) o).
Proof.
  destruct a as [[tick db] rs]. unfold bexec, bdb. cbn [fst snd].
  now destruct (bstep tick db o).
Qed.

Lemma brun_snoc ops o : brun (ops ++ [o]) = bexec (brun ops) o.
Proof. unfold brun, brun_from. now rewrite fold_left_app. Qed.

Lemma brun_wf ops : bwf (bdb (brun ops)).
Proof.
  unfold brun. apply (brun_from_ind (fun a => bwf (bdb a))).
  - intros a o H. rewrite bexec_db. now apply bstep_wf.
  - constructor.
Qed.

(** ** ORDER BY *)
Definition hops_before (x e : bentry) : bool := be_hops x <? be_hops e.
Definition lu_before (x e : bentry) : bool := be_lu e <? be_lu x.

Lemma insert_hops_ins e l : insert_hops e l = ins hops_before e l.
Proof. induction l as [|x t IH]; cbn; [reflexivity|]. unfold hops_before at 1. now rewrite IH. Qed.
Lemma sort_hops_isort l : sort_hops l = isort hops_before l.
Proof.
  unfold sort_hops, isort. induction l as [|x t IH]; cbn; [reflexivity|].
  now rewrite IH, insert_hops_ins.
Qed.
Lemma insert_lu_ins e l : insert_lu e l = ins lu_before e l.
Proof. induction l as [|x t IH]; cbn; [reflexivity|]. unfold lu_before at 1. now rewrite IH. Qed.
Lemma sort_lu_isort l : sort_lu l = isort lu_before l.
Proof.
  unfold sort_lu, isort. induction l as [|x t IH]; cbn; [reflexivity|].
  now rewrite IH, insert_lu_ins.
Qed.

Lemma hops_asym x y : hops_before x y = true -> hops_before y x = false.
Proof. unfold hops_before. rewrite N.ltb_lt, N.ltb_ge. lia. Qed.
Lemma hops_trans x y z : ord hops_before x y -> ord hops_before y z -> ord hops_before x z.
Proof. unfold ord, hops_before. rewrite !N.ltb_ge. lia. Qed.
Lemma hops_ord x y : ord hops_before x y <-> be_hops x <= be_hops y.
Proof. unfold ord, hops_before. now rewrite N.ltb_ge. Qed.
Lemma lu_asym x y : lu_before x y = true -> lu_before y x = false.
Proof. unfold lu_before. rewrite N.ltb_lt, N.ltb_ge. lia. Qed.
Lemma lu_trans x y z : ord lu_before x y -> ord lu_before y z -> ord lu_before x z.
Proof. unfold ord, lu_before. rewrite !N.ltb_ge. lia. Qed.
Lemma lu_ord x y : ord lu_before x y <-> be_lu y <= be_lu x.
Proof. unfold ord, lu_before. now rewrite N.ltb_ge. Qed.

(** ** CandidateBeacons *)
Lemma candidates_spec n u src db :
  let m := filter (cand_match u src) db in
  let r := candidate_beacons n u src db in
  StronglySorted (fun x y => be_hops x <= be_hops y) r
  /\ (length r <= N.to_nat n)%nat
  /\ length r = Nat.min (N.to_nat n) (length m)
  /\ (forall e, In e r -> In e db /\ usage_has (be_usage e) u = true /\ src_ok src e = true)
  /\ (forall x, In x m -> ~ In x r -> forall y, In y r -> be_hops y <= be_hops x)
  /\ (bwf db -> NoDup (map be_id r)).
Proof.
  intros m r. subst r. unfold candidate_beacons. fold m. rewrite sort_hops_isort.
  pose proof (isort_perm hops_before m) as P.
  pose proof (isort_sorted hops_before hops_asym hops_trans m) as S.
  set (s := isort hops_before m) in *.
  split; [|split; [|split; [|split; [|split]]]].
  - pose proof (sorted_firstn hops_before (N.to_nat n) s S) as S'.
    induction S' as [|x t S' IH F]; constructor; [exact IH|].
    rewrite Forall_forall in *. intros y Hy. apply hops_ord. now apply F.
  - apply firstn_le_length.
  - rewrite firstn_length. now rewrite (Permutation_length P).
  - intros e He. assert (Hs : In e s).
    { rewrite <- (firstn_skipn (N.to_nat n) s). apply in_or_app. now left. }
    apply (Permutation_in _ P) in Hs. subst m. apply filter_In in Hs as [H1 H2].
    unfold cand_match in H2. apply andb_true_iff in H2. tauto.
  - intros x Hx Hn y Hy. apply hops_ord.
    apply (sorted_split hops_before (N.to_nat n) s y x S Hy).
    apply (Permutation_in _ (Permutation_sym P)) in Hx.
    rewrite <- (firstn_skipn (N.to_nat n) s) in Hx. apply in_app_or in Hx as [Hx|Hx]; tauto.
  - intros W. rewrite <- firstn_map. apply nodup_firstn.
    apply (Permutation_NoDup (Permutation_map be_id (Permutation_sym P))).
    subst m. now apply nodup_map_filter.
Qed.

Lemma resolve_model db r :
  bwf db -> (forall e, In e r -> In e db) -> resolve db (map crow_of r) = Some r.
Proof.
  intros W. induction r as [|e t IH]; intros H; cbn; [reflexivity|].
  rewrite (kfind_in be_id db e W) by (apply H; now left).
  rewrite IH by (intros x Hx; apply H; now right). now rewrite N.eqb_refl.
Qed.

Lemma sorted_hops_true l :
  StronglySorted (fun x y => be_hops x <= be_hops y) l -> sorted_hops l = true.
Proof.
  induction 1 as [|x t S IH F]; cbn; [reflexivity|]. rewrite IH, andb_true_r.
  apply forallb_forall. intros y Hy. rewrite Forall_forall in F. apply N.leb_le. now apply F.
Qed.

Lemma cands_ok_model n u src db :
  bwf db -> cands_ok db n u src (map crow_of (candidate_beacons n u src db)) = true.
Proof.
  intros W. destruct (candidates_spec n u src db) as [S [L1 [L2 [M [R D]]]]].
  unfold cands_ok. rewrite resolve_model; [|exact W|intros e He; now apply M].
  set (r := candidate_beacons n u src db) in *.
  rewrite !andb_true_iff. repeat split.
  - apply forallb_forall. intros e He. destruct (M e He) as [_ [A B]].
    unfold cand_match. now rewrite A, B.
  - apply nodup_by_NoDup; [exact id_eqb_eq|now apply D].
  - now apply sorted_hops_true.
  - apply N.eqb_eq. rewrite L2. lia.
  - apply forallb_forall. intros x Hx.
    destruct (mem_by id_eqb (be_id x) (map be_id r)) eqn:E; [reflexivity|]. cbn [orb].
    apply forallb_forall. intros y Hy. apply N.leb_le. apply (R x Hx); [|exact Hy].
    intros Hin. assert (T : mem_by id_eqb (be_id x) (map be_id r) = true).
    { apply mem_by_In; [exact id_eqb_eq|]. now apply in_map. }
    congruence.
Qed.

(** ** GetBeacons *)
Lemma get_beacons_spec p db :
  Permutation (get_beacons p db) (filter (bmatch p) db)
  /\ StronglySorted (fun x y => be_lu y <= be_lu x) (get_beacons p db).
Proof.
  unfold get_beacons. rewrite sort_lu_isort. split; [apply isort_perm|].
  pose proof (isort_sorted lu_before lu_asym lu_trans (filter (bmatch p) db)) as S.
  induction S as [|x t S IH F]; constructor; [exact IH|].
  rewrite Forall_forall in *. intros y Hy. apply lu_ord. now apply F.
Qed.

Lemma desc_lu_true l :
  StronglySorted (fun x y => be_lu y <= be_lu x) l -> desc_lu (map brow_of l) = true.
Proof.
  induction 1 as [|x t S IH F]; cbn; [reflexivity|]. rewrite IH, andb_true_r.
  apply forallb_forall. intros r Hr. apply in_map_iff in Hr as [y [<- Hy]].
  cbn [brow_of snd]. rewrite Forall_forall in F. apply N.leb_le. now apply F.
Qed.

Lemma brow_of_id_inj (l : list bentry) : NoDup (map be_id l) -> NoDup (map brow_of l).
Proof.
  induction l as [|x t IH]; cbn; intros W; [constructor|].
  inversion W as [|? ? Hn W']; subst. constructor; [|now apply IH].
  intros H. apply Hn. apply in_map_iff in H as [y [E Hy]]. apply in_map_iff. exists y.
  split; [|exact Hy]. unfold brow_of in E. now inversion E.
Qed.

Lemma get_rows_same_set p db :
  bwf db ->
  same_set brow_eqb (map brow_of (get_beacons p db)) (map brow_of (filter (bmatch p) db)) = true.
Proof.
  intros W. destruct (get_beacons_spec p db) as [P _].
  apply (same_set_iff brow_eqb brow_eqb_eq). split.
  - apply brow_of_id_inj. apply (Permutation_NoDup (Permutation_map be_id (Permutation_sym P))).
    now apply nodup_map_filter.
  - intros x. split; apply Permutation_in; [|apply Permutation_sym]; now apply Permutation_map.
Qed.

(** ** BeaconSources *)
Lemma mem_ia_In x l : mem_ia x l = true <-> In x l.
Proof.
  induction l as [|y t IH]; cbn; [split; [discriminate|tauto]|].
  rewrite orb_true_iff, IH, ia_eqb_eq. tauto.
Qed.
Lemma dedup_ia_spec l : NoDup (dedup_ia l) /\ forall x, In x (dedup_ia l) <-> In x l.
Proof.
  induction l as [|y t [N1 I1]]; cbn; [split; [constructor|tauto]|].
  destruct (mem_ia y (dedup_ia t)) eqn:E.
  - split; [exact N1|]. intros x. rewrite I1. apply mem_ia_In in E. apply I1 in E.
    split; [tauto|]. intros [<-|H]; tauto.
  - split.
    + constructor; [|exact N1]. intros H. apply mem_ia_In in H. congruence.
    + intros x. cbn. rewrite I1. tauto.
Qed.
Lemma sources_same_set db : same_set ia_eqb (beacon_sources db) (map be_start db) = true.
Proof.
  apply (same_set_iff ia_eqb ia_eqb_eq). unfold beacon_sources.
  destruct (dedup_ia_spec (map be_start db)) as [A B]. split; [exact A|exact B].
Qed.
