(** Lemmas about Model/Signed.v. *)
From Coq Require Import List NArith ZArith Bool Lia.
From Scion Require Import Lib.Check Lib.Bytes Lib.PBWire Model.Signed.
Import ListNotations.
Import Signed.
Local Open Scope N_scope.

(** ------------------------------------------------------------------ generalities *)

Lemma ad_len_acc (ad : list bytes) : forall a, fold_left (fun a (d : bytes) => (a + Z.of_nat (length d))%Z) ad a
                                = (a + Z.of_nat (length (concat ad)))%Z.
Proof.
  induction ad as [|d t IH]; intros a; cbn [fold_left concat length].
  - lia.
  - rewrite IH, app_length. lia.
Qed.

Lemma ad_len_concat ad : ad_len ad = Z.of_nat (length (concat ad)).
Proof. unfold ad_len. rewrite ad_len_acc. lia. Qed.

Lemma bytes_eqb_refl l : bytes_eqb l l = true.
Proof. now apply bytes_eqb_eq. Qed.

Section Scheme.
  Variables SK PK SG : Type.
  Variable sign_with : SK -> bytes -> SG.
  Variable sig_valid : PK -> bytes -> SG -> bool.
  Variable pub : SK -> PK.
  Variable hash : N -> bytes -> bytes.
  Variable kind : PK -> N.
  Variable ser : header -> bytes -> bytes.
  Variable parse : bytes -> option (header * bytes).
  (** which (header, body) pairs [ser] marshals without loss *)
  Variable wf : header -> bytes -> Prop.

  (** the only assumption on the signature scheme: honest signatures verify *)
  Hypothesis sig_correct : forall sk m, sig_valid (pub sk) m (sign_with sk m) = true.
  (** what was marshalled is what extractHeaderAndBody reads back *)
  Hypothesis parse_ser : forall h b, wf h b -> parse (ser h b) = Some (h, b).

  Notation sign' := (sign SK PK SG sign_with pub hash kind ser).
  Notation verify' := (verify PK SG sig_valid hash kind parse).
  Notation input := (sig_input hash).

  Lemma sig_input_concat a hb ad1 ad2 :
    concat ad1 = concat ad2 -> input a hb ad1 = input a hb ad2.
  Proof. intros E. unfold sig_input. now rewrite E. Qed.

  Lemma verify_ad_concat m k ad1 ad2 :
    concat ad1 = concat ad2 -> verify' m k ad1 = verify' m k ad2.
  Proof.
    intros E. unfold verify. rewrite !ad_len_concat, E.
    destruct k as [k|]; [|reflexivity].
    destruct (parse (m_hb m)) as [[h b]|]; [|reflexivity].
    now rewrite (sig_input_concat (h_algo h) (m_hb m) ad1 ad2 E).
  Qed.

  Lemma sign_ad_concat sk h b ad1 ad2 :
    concat ad1 = concat ad2 -> sign' sk h b ad1 = sign' sk h b ad2.
  Proof.
    intros E. unfold sign. rewrite !ad_len_concat, E.
    destruct sk as [k|]; [|reflexivity].
    now rewrite (sig_input_concat (h_algo h) (ser h b) ad1 ad2 E).
  Qed.

  Lemma sign_ok_inv sk h b ad m :
    sign' sk h b ad = Ok m ->
    exists k, sk = Some k /\ ad_len ad = h_adlen h /\ check_algo (h_algo h) (kind (pub k)) = true /\
              m = mkmsg (ser h b) (sign_with k (input (h_algo h) (ser h b) ad)).
  Proof.
    unfold sign. destruct sk as [k|]; [|discriminate].
    destruct (ad_len ad =? h_adlen h)%Z eqn:E1; cbn [negb]; [|discriminate].
    destruct (check_algo (h_algo h) (kind (pub k))) eqn:E2; cbn [negb]; [|discriminate].
    intros H. inversion H. exists k. repeat split; try assumption. now apply Z.eqb_eq.
  Qed.

  Lemma verify_ok_inv m key ad h b :
    verify' m key ad = Ok (h, b) ->
    exists k, key = Some k /\ parse (m_hb m) = Some (h, b) /\ ad_len ad = h_adlen h /\
              check_algo (h_algo h) (kind k) = true /\
              sig_valid k (input (h_algo h) (m_hb m) ad) (m_sig m) = true.
  Proof.
    unfold verify. destruct key as [k|]; [|discriminate].
    destruct (parse (m_hb m)) as [[h' b']|]; [|discriminate].
    destruct (ad_len ad =? h_adlen h')%Z eqn:E1; cbn [negb]; [|discriminate].
    destruct (check_algo (h_algo h') (kind k)) eqn:E2; cbn [negb]; [|discriminate].
    destruct (sig_valid k _ _) eqn:E3; [|discriminate].
    intros H. inversion H; subst. exists k. repeat split; try assumption. now apply Z.eqb_eq.
  Qed.

  (** C38 roundtrip *)
  Lemma roundtrip sk h b ad m :
    wf h b -> sign' sk h b ad = Ok m ->
    exists k, sk = Some k /\ verify' m (Some (pub k)) ad = Ok (h, b).
  Proof.
    intros W S. destruct (sign_ok_inv _ _ _ _ _ S) as (k & -> & L & A & ->).
    exists k. split; [reflexivity|]. unfold verify. cbn [m_hb m_sig].
    rewrite (parse_ser h b W). rewrite L, Z.eqb_refl. cbn [negb]. rewrite A. cbn [negb].
    now rewrite sig_correct.
  Qed.

  (** a successful verification returns exactly what the signed bytes contain *)
  Lemma returns_parsed m key ad h b :
    verify' m key ad = Ok (h, b) -> parse (m_hb m) = Some (h, b).
  Proof. intros V. destruct (verify_ok_inv _ _ _ _ _ V) as (k & _ & P & _). exact P. Qed.

  Lemma returns_signed sk h b ad m sg' key ad' h' b' :
    wf h b -> sign' sk h b ad = Ok m ->
    verify' (mkmsg (m_hb m) sg') key ad' = Ok (h', b') -> (h', b') = (h, b).
  Proof.
    intros W S V. destruct (sign_ok_inv _ _ _ _ _ S) as (k & -> & _ & _ & ->).
    apply returns_parsed in V. cbn [m_hb] in V. rewrite (parse_ser h b W) in V. now inversion V.
  Qed.

  (** algorithm / key-type mismatch *)
  Lemma check_algo_false a k : algo_details a = None \/ k <> 1 -> check_algo a k = false.
  Proof.
    intros [H|H]; unfold check_algo.
    - now rewrite H.
    - destruct (algo_details a) as [[p hh]|]; [|reflexivity].
      destruct (k =? 1) eqn:E; [apply N.eqb_eq in E; contradiction|reflexivity].
  Qed.

  Lemma sign_algo_mismatch sk h b ad :
    (forall k, sk = Some k -> algo_details (h_algo h) = None \/ kind (pub k) <> 1) ->
    forall m, sign' sk h b ad <> Ok m.
  Proof.
    intros H m S. destruct (sign_ok_inv _ _ _ _ _ S) as (k & -> & _ & A & _).
    rewrite (check_algo_false _ _ (H k eq_refl)) in A. discriminate.
  Qed.

  Lemma verify_algo_mismatch m key ad :
    (forall k h b, key = Some k -> parse (m_hb m) = Some (h, b) ->
                   algo_details (h_algo h) = None \/ kind k <> 1) ->
    forall r, verify' m key ad <> Ok r.
  Proof.
    intros H [h b] V. destruct (verify_ok_inv _ _ _ _ _ V) as (k & -> & P & _ & A & _).
    rewrite (check_algo_false _ _ (H k h b eq_refl P)) in A. discriminate.
  Qed.

  (** ---------------------------------------------------------------- tampering *)

  (** what the signer was asked to sign *)
  Definition query := (header * bytes * list bytes)%type.

  (** two different (hash function, message) pairs with the same digest *)
  Definition collision (a a' : N) (x x' : bytes) : Prop :=
    (hash_of a, x) <> (hash_of a', x') /\
    (if hash_of a =? 0 then x else hash (hash_of a) x) =
    (if hash_of a' =? 0 then x' else hash (hash_of a') x').

  (** header-and-body and associated data split differently *)
  Definition splice (hb hb' cad cad' : bytes) : Prop :=
    hb' <> hb /\ hb' ++ cad' = hb ++ cad.

  Lemma tamper_one sk h b ad m m' pk' ad' h' b' :
    sign' (Some sk) h b ad = Ok m ->
    verify' m' (Some pk') ad' = Ok (h', b') ->
    (m_hb m', concat ad') <> (m_hb m, concat ad) ->
    (pk', input (h_algo h') (m_hb m') ad', m_sig m')
      = (pub sk, input (h_algo h) (m_hb m) ad, m_sig m) ->
    collision (h_algo h) (h_algo h') (m_hb m ++ concat ad) (m_hb m' ++ concat ad')
    \/ splice (m_hb m) (m_hb m') (concat ad) (concat ad').
  Proof.
    intros S V D T. inversion T as [[Hk Hi Hs]]. clear T.
    destruct (list_eq_dec N.eq_dec (m_hb m' ++ concat ad') (m_hb m ++ concat ad)) as [E|NE].
    - right. split; [|exact E].
      intros Hhb. apply D. rewrite Hhb in E. apply app_inv_head in E. now rewrite Hhb, E.
    - left. split.
      + intros C. inversion C. now apply NE.
      + unfold sig_input in Hi. now rewrite Hi.
  Qed.

  (** If a message verifies that differs from every signed one, then [sig_valid]
      accepted a (key, input, signature) triple; and whenever that triple is one
      the signer produced, a hash collision or a splice happened. *)
  Lemma tamper_reduction sk (Q : list query) m' pk' ad' h' b' :
    verify' m' (Some pk') ad' = Ok (h', b') ->
    (forall h b ad m, In (h, b, ad) Q -> sign' (Some sk) h b ad = Ok m ->
                      (m_hb m', m_sig m', concat ad', pk') <> (m_hb m, m_sig m, concat ad, pub sk)) ->
    let d' := input (h_algo h') (m_hb m') ad' in
    sig_valid pk' d' (m_sig m') = true /\
    forall h b ad m, In (h, b, ad) Q -> sign' (Some sk) h b ad = Ok m ->
      (pk', d', m_sig m') = (pub sk, input (h_algo h) (m_hb m) ad, m_sig m) ->
      collision (h_algo h) (h_algo h') (m_hb m ++ concat ad) (m_hb m' ++ concat ad')
      \/ splice (m_hb m) (m_hb m') (concat ad) (concat ad').
  Proof.
    intros V D d'. split.
    - destruct (verify_ok_inv _ _ _ _ _ V) as (k & Hk & _ & _ & _ & Sv). inversion Hk; subst k. exact Sv.
    - intros h b ad m Hin S T. eapply tamper_one; eauto.
      intros E. inversion E as [[E1 E2]]. inversion T as [[T1 T2 T3]].
      apply (D h b ad m Hin S). now rewrite E1, E2, T1, T3.
  Qed.
End Scheme.

(** ------------------------------------------------------------------
    The concrete protobuf serialisation: parse_hb (ser_hb h b) = (h, b). *)

Ltac zdm := Z.div_mod_to_equations; lia.

Lemma to_i64_of_i64 z :
  (-9223372036854775808 <= z < 9223372036854775808)%Z -> PB.to_i64 (PB.of_i64 z) = z.
Proof.
  intros H. unfold PB.to_i64, PB.of_i64.
  set (w := (Z.to_N (z mod 18446744073709551616) mod 18446744073709551616)).
  assert (Hw : Z.of_N w = (z mod 18446744073709551616)%Z).
  { unfold w. rewrite N2Z.inj_mod, Z2N.id by zdm. rewrite Z.mod_mod by lia. reflexivity. }
  destruct (w <? 9223372036854775808) eqn:E.
  - apply N.ltb_lt in E. rewrite Hw. assert (Z.of_N w < 9223372036854775808)%Z by lia. zdm.
  - apply N.ltb_ge in E. rewrite Hw. assert (9223372036854775808 <= Z.of_N w)%Z by lia. zdm.
Qed.

Lemma to_i32_of_i64 z :
  (-2147483648 <= z < 2147483648)%Z -> PB.to_i32 (PB.of_i64 z) = z.
Proof.
  intros H. unfold PB.to_i32, PB.of_i64.
  set (w := (Z.to_N (z mod 18446744073709551616) mod 4294967296)).
  assert (Hw : Z.of_N w = (z mod 4294967296)%Z).
  { unfold w. rewrite N2Z.inj_mod, Z2N.id by zdm. zdm. }
  destruct (w <? 2147483648) eqn:E.
  - apply N.ltb_lt in E. rewrite Hw. assert (Z.of_N w < 2147483648)%Z by lia. zdm.
  - apply N.ltb_ge in E. rewrite Hw. assert (2147483648 <= Z.of_N w)%Z by lia. zdm.
Qed.

Lemma of_i64_lt z : PB.of_i64 z < 18446744073709551616.
Proof. unfold PB.of_i64. assert (0 <= z mod 18446744073709551616 < 18446744073709551616)%Z by zdm. lia. Qed.

Lemma of_i64_zero z :
  (-9223372036854775808 <= z < 9223372036854775808)%Z -> PB.of_i64 z = 0 -> z = 0%Z.
Proof. intros H E. rewrite <- (to_i64_of_i64 z H), E. reflexivity. Qed.

Lemma fields_opt_int num v rest l :
  1 <= num -> num < 16 -> v < 18446744073709551616 -> PB.fields rest = Some l ->
  PB.fields (PB.opt_int num v ++ rest)
  = Some ((if v =? 0 then [] else [(num, PB.VInt v)]) ++ l).
Proof.
  intros. unfold PB.opt_int. destruct (v =? 0); [assumption|].
  cbn [app]. now apply PB.fields_int.
Qed.

Lemma fields_opt_len num s rest l :
  1 <= num -> num < 16 -> small s -> PB.fields rest = Some l ->
  PB.fields (PB.opt_len num s ++ rest)
  = Some ((match s with [] => [] | _ => [(num, PB.VLen s)] end) ++ l).
Proof.
  intros. unfold PB.opt_len. destruct s; [assumption|].
  cbn [app]. now apply PB.fields_len.
Qed.

Lemma ts_eqb_eq a b : ts_eqb a b = true <-> a = b.
Proof.
  destruct a as [a1 a2], b as [b1 b2]. unfold ts_eqb. cbn [fst snd].
  rewrite andb_true_iff, !Z.eqb_eq. split; [intros [-> ->]; reflexivity|intros E; inversion E; auto].
Qed.

Lemma parse_ts t :
  (-9223372036854775808 <= fst t < 9223372036854775808)%Z -> (0 <= snd t < 1000000000)%Z ->
  exists tf, PB.fields (ser_ts t) = Some tf /\
             as_time (PB.to_i64 (PB.last_int 1 tf)) (PB.to_i32 (PB.last_int 2 tf)) = t.
Proof.
  destruct t as [s n]. cbn [fst snd]. intros Hs Hn. unfold ser_ts. cbn [fst snd].
  rewrite <- (app_nil_r (PB.opt_int 2 (PB.of_i64 n))).
  rewrite (fields_opt_int 1 (PB.of_i64 s) _
             ((if PB.of_i64 n =? 0 then [] else [(2, PB.VInt (PB.of_i64 n))]) ++ []));
    try lia; try apply of_i64_lt.
  2:{ apply fields_opt_int; try lia; try apply of_i64_lt. reflexivity. }
  eexists. split; [reflexivity|].
  assert (A : forall x y, as_time x y = (s, n) <-> True -> True) by auto. clear A.
  assert (Es : PB.to_i64 (PB.last_int 1 ((if PB.of_i64 s =? 0 then [] else [(1, PB.VInt (PB.of_i64 s))]) ++
               (if PB.of_i64 n =? 0 then [] else [(2, PB.VInt (PB.of_i64 n))]) ++ [])) = s).
  { destruct (PB.of_i64 s =? 0) eqn:E1; destruct (PB.of_i64 n =? 0) eqn:E2; cbn.
    - apply N.eqb_eq in E1. symmetry. apply of_i64_zero; assumption.
    - apply N.eqb_eq in E1. symmetry. apply of_i64_zero; assumption.
    - now apply to_i64_of_i64.
    - now apply to_i64_of_i64. }
  assert (En : PB.to_i32 (PB.last_int 2 ((if PB.of_i64 s =? 0 then [] else [(1, PB.VInt (PB.of_i64 s))]) ++
               (if PB.of_i64 n =? 0 then [] else [(2, PB.VInt (PB.of_i64 n))]) ++ [])) = n).
  { destruct (PB.of_i64 s =? 0) eqn:E1; destruct (PB.of_i64 n =? 0) eqn:E2; cbn.
    - apply N.eqb_eq in E2. symmetry. apply of_i64_zero; [lia|assumption].
    - apply to_i32_of_i64. lia.
    - apply N.eqb_eq in E2. symmetry. apply of_i64_zero; [lia|assumption].
    - apply to_i32_of_i64. lia. }
  rewrite Es, En. unfold as_time, wrap64. f_equal; zdm.
Qed.

Lemma algo_roundtrip a : a = 1 \/ a = 2 \/ a = 3 ->
  algo_to_pb a = a /\ a <> 0 /\ a < 18446744073709551616 /\ algo_from_pb (PB.to_i32 a) = a.
Proof. intros [ -> | [ -> | -> ] ]; repeat split; try reflexivity; try discriminate. Qed.

Lemma parse_ser_header h b :
  signable h b -> parse_header (ser_header h) = Some h.
Proof.
  intros (Ha & Ht & Hl & Hk & Hm & _ & Hst & _).
  destruct h as [a kid ts meta adl]. cbn [h_algo h_keyid h_ts h_meta h_adlen] in *.
  destruct (algo_roundtrip a Ha) as (A1 & A2 & A3 & A4).
  assert (Hts : match Ht with _ => True end) by (destruct Ht; exact I). clear Hts.
  assert (Rng : (-9223372036854775808 <= fst ts < 9223372036854775808)%Z /\ (0 <= snd ts < 1000000000)%Z).
  { destruct Ht as [->|Ht]; [cbn; lia|exact Ht]. }
  destruct Rng as [R1 R2].
  destruct (parse_ts ts R1 R2) as (tf & Ftf & Etf).
  unfold parse_header, ser_header. cbn [h_algo h_keyid h_ts h_meta h_adlen].
  rewrite A1.
  set (L := PB.of_i64 (wrap32 adl)).
  assert (Wl : wrap32 adl = adl) by (unfold wrap32; zdm).
  assert (HL : L < 18446744073709551616) by apply of_i64_lt.
  set (T := if ts_eqb ts zero_time then [] else PB.enc_len 3 (ser_ts ts)).
  set (Tf := if ts_eqb ts zero_time then [] else [(3, PB.VLen (ser_ts ts))]).
  assert (FT : forall rest l, PB.fields rest = Some l -> PB.fields (T ++ rest) = Some (Tf ++ l)).
  { intros rest l Hr. unfold T, Tf. destruct (ts_eqb ts zero_time); [exact Hr|].
    apply PB.fields_len; try lia; assumption. }
  rewrite <- (app_nil_r (PB.opt_int 5 L)).
  erewrite fields_opt_int; try lia; try exact A3.
  2:{ apply fields_opt_len; try lia; try exact Hk.
      apply FT. apply fields_opt_len; try lia; try exact Hm.
      apply fields_opt_int; try lia; try exact HL. reflexivity. }
  destruct (a =? 0) eqn:Ea0; [apply N.eqb_eq in Ea0; contradiction|].
  (* now evaluate the field lookups on the explicit list *)
  assert (E3 : PB.all_len 3
     ([(1, PB.VInt a)] ++ (match kid with [] => [] | _ => [(2, PB.VLen kid)] end) ++ Tf ++
      (match meta with [] => [] | _ => [(4, PB.VLen meta)] end) ++
      (if L =? 0 then [] else [(5, PB.VInt L)]) ++ [])
     = if ts_eqb ts zero_time then [] else [ser_ts ts]).
  { unfold Tf. destruct kid, meta, (L =? 0), (ts_eqb ts zero_time); reflexivity. }
  rewrite E3.
  assert (E1 : PB.last_int 1
     ([(1, PB.VInt a)] ++ (match kid with [] => [] | _ => [(2, PB.VLen kid)] end) ++ Tf ++
      (match meta with [] => [] | _ => [(4, PB.VLen meta)] end) ++
      (if L =? 0 then [] else [(5, PB.VInt L)]) ++ []) = a).
  { unfold Tf. destruct kid, meta, (L =? 0), (ts_eqb ts zero_time); reflexivity. }
  assert (E2 : PB.last_len 2
     ([(1, PB.VInt a)] ++ (match kid with [] => [] | _ => [(2, PB.VLen kid)] end) ++ Tf ++
      (match meta with [] => [] | _ => [(4, PB.VLen meta)] end) ++
      (if L =? 0 then [] else [(5, PB.VInt L)]) ++ []) = kid).
  { unfold Tf. destruct kid, meta, (L =? 0), (ts_eqb ts zero_time); reflexivity. }
  assert (E4 : PB.last_len 4
     ([(1, PB.VInt a)] ++ (match kid with [] => [] | _ => [(2, PB.VLen kid)] end) ++ Tf ++
      (match meta with [] => [] | _ => [(4, PB.VLen meta)] end) ++
      (if L =? 0 then [] else [(5, PB.VInt L)]) ++ []) = meta).
  { unfold Tf. destruct kid, meta, (L =? 0), (ts_eqb ts zero_time); reflexivity. }
  assert (E5 : PB.to_i32 (PB.last_int 5
     ([(1, PB.VInt a)] ++ (match kid with [] => [] | _ => [(2, PB.VLen kid)] end) ++ Tf ++
      (match meta with [] => [] | _ => [(4, PB.VLen meta)] end) ++
      (if L =? 0 then [] else [(5, PB.VInt L)]) ++ [])) = adl).
  { unfold Tf. destruct (L =? 0) eqn:EL.
    - apply N.eqb_eq in EL. unfold L in EL. rewrite Wl in EL.
      assert (adl = 0%Z) by (apply of_i64_zero; [lia|exact EL]). subst adl.
      destruct kid, meta, (ts_eqb ts zero_time); reflexivity.
    - assert (PB.to_i32 L = adl) by (unfold L; rewrite Wl; apply to_i32_of_i64; lia).
      destruct kid, meta, (ts_eqb ts zero_time); cbn; assumption. }
  rewrite E1, E2, E4, E5, A4.
  destruct (ts_eqb ts zero_time) eqn:Ez.
  - apply ts_eqb_eq in Ez. rewrite Ez. reflexivity.
  - cbn [PB.merged]. rewrite Ftf. cbn [PB.merged]. rewrite app_nil_r, Etf. reflexivity.
Qed.

Lemma parse_ser_hb h b : signable h b -> parse_hb (ser_hb h b) = Some (h, b).
Proof.
  intros W. pose proof (parse_ser_header h b W) as PH.
  destruct W as (Ha & _ & _ & _ & _ & Hb & _ & Hh).
  unfold parse_hb, ser_hb.
  rewrite <- (app_nil_r (PB.opt_len 2 b)).
  erewrite fields_opt_len; try lia; try exact Hh.
  2:{ apply fields_opt_len; try lia; try exact Hb. reflexivity. }
  assert (NE : ser_header h <> []).
  { unfold ser_header. destruct (algo_roundtrip _ Ha) as (A1 & A2 & _). rewrite A1.
    unfold PB.opt_int. destruct (h_algo h =? 0) eqn:E; [apply N.eqb_eq in E; contradiction|].
    discriminate. }
  destruct (ser_header h) as [|x t] eqn:Eh; [contradiction|].
  assert (E1 : PB.last_len 1 ([(1, PB.VLen (x :: t))] ++ (match b with [] => [] | _ => [(2, PB.VLen b)] end) ++ [])
               = x :: t) by (destruct b; reflexivity).
  assert (E2 : PB.last_len 2 ([(1, PB.VLen (x :: t))] ++ (match b with [] => [] | _ => [(2, PB.VLen b)] end) ++ [])
               = b) by (destruct b; reflexivity).
  rewrite E1, E2, PH. reflexivity.
Qed.

(** ------------------------------------------------------------------
    A toy scheme in which neither forgeries nor collisions exist: the signature
    of [m] under key [k] is the pair (k, m).  It satisfies the hypotheses of
    Section Scheme (with the real protobuf serialisation). *)
Module Toy.
  Definition sign_with (sk : N) (m : bytes) : N * bytes := (sk, m).
  Definition sig_valid (pk : N) (m : bytes) (s : N * bytes) : bool :=
    (fst s =? pk) && bytes_eqb (snd s) m.
  Definition pub (sk : N) : N := sk.
  Definition kind (pk : N) : N := 1.

  Lemma correct sk m : sig_valid (pub sk) m (sign_with sk m) = true.
  Proof. unfold sig_valid, sign_with, pub. cbn. now rewrite N.eqb_refl, bytes_eqb_refl. Qed.

  Lemma unforgeable pk m s : sig_valid pk m s = true -> s = sign_with pk m.
  Proof.
    destruct s as [k x]. unfold sig_valid, sign_with. cbn. intros H.
    apply andb_true_iff in H as [H1 H2]. apply N.eqb_eq in H1. apply bytes_eqb_eq in H2. now subst.
  Qed.

  Definition sign := Signed.sign N N (N * bytes) sign_with pub hash_c kind ser_hb.
  Definition verify := Signed.verify N (N * bytes) sig_valid hash_c kind parse_hb.
End Toy.

Lemma hash_c_inj a a' x x' :
  (if hash_of a =? 0 then x else hash_c (hash_of a) x) =
  (if hash_of a' =? 0 then x' else hash_c (hash_of a') x') ->
  algo_details a <> None -> algo_details a' <> None -> (hash_of a, x) = (hash_of a', x').
Proof.
  intros E Ha Ha'.
  assert (H0 : forall b, algo_details b <> None -> hash_of b =? 0 = false).
  { intros b. unfold hash_of, algo_details.
    destruct b as [|[[|[]|]|[|[]|]|]]; intros Hb; try reflexivity; now elim Hb. }
  rewrite (H0 a Ha), (H0 a' Ha') in E. unfold hash_c in E. now inversion E.
Qed.

(** ------------------------------------------------------------------
    The oracle of [check] on the model (table = crypto verdicts as data). *)

(** every triple the table accepts is the honest one: no forgery was supplied *)
Definition tbl_honest (h : header) (cad : bytes) (kid : N) (hb sg : bytes) (tbl : tbl_t) : Prop :=
  forall e, In e tbl -> e = (kid, hash_c (hash_of (h_algo h)) (hb ++ cad), sg).

Lemma sig_valid_c_in tbl k d s :
  sig_valid_c tbl k d s = true -> In (snd k, d, s) tbl.
Proof.
  unfold sig_valid_c. rewrite existsb_exists. intros ([[i d'] s'] & Hin & H).
  apply andb_true_iff in H as [H H3]. apply andb_true_iff in H as [H1 H2].
  apply N.eqb_eq in H1. apply bytes_eqb_eq in H2. apply bytes_eqb_eq in H3. now subst.
Qed.

Lemma in_sig_valid_c tbl k d s : In (snd k, d, s) tbl -> sig_valid_c tbl k d s = true.
Proof.
  intros H. unfold sig_valid_c. rewrite existsb_exists. exists (snd k, d, s). split; [exact H|].
  now rewrite N.eqb_refl, !bytes_eqb_refl.
Qed.

Lemma hdr_eqb_refl h : hdr_eqb h h = true.
Proof.
  unfold hdr_eqb. rewrite N.eqb_refl, !bytes_eqb_refl, Z.eqb_refl.
  assert (ts_eqb (h_ts h) (h_ts h) = true) by now apply ts_eqb_eq.
  now rewrite H.
Qed.

Lemma out_eqb_refl o : out_eqb o o = true.
Proof. destruct o as [[h b]|]; cbn; [|reflexivity]. now rewrite hdr_eqb_refl, bytes_eqb_refl. Qed.

Lemma opt_key_eqb_eq a b : opt_key_eqb a b = true -> a = b.
Proof.
  destruct a as [[a1 a2]|], b as [[b1 b2]|]; cbn; try discriminate; try reflexivity.
  intros H. apply andb_true_iff in H as [H1 H2]. apply N.eqb_eq in H1, H2. now subst.
Qed.

Lemma hash_of_nonzero a k : check_algo a k = true -> hash_of a =? 0 = false.
Proof.
  unfold check_algo, hash_of, algo_details.
  destruct a as [|[[|[]|]|[|[]|]|]]; intros H; try reflexivity; discriminate.
Qed.

Lemma oracle_verify_model h body cad kid hb sg hb' sg' ad' k' tbl :
  signable h body -> hb = ser_hb h body ->
  ad_len [cad] = h_adlen h -> check_algo (h_algo h) 1 = true ->
  tbl_honest h cad kid hb sg tbl ->
  (unchanged cad kid hb sg hb' sg' ad' k' = true ->
   In (kid, hash_c (hash_of (h_algo h)) (hb ++ cad), sg) tbl) ->
  known_splice cad hb hb' ad' = false ->
  oracle_verify h body cad kid hb sg hb' sg' ad' k'
                (to_opt (verify_c tbl hb' sg' k' ad')) = true.
Proof.
  intros W Hhb Hlen Halg Hon Hin Hk.
  unfold oracle_verify.
  destruct (unchanged cad kid hb sg hb' sg' ad' k') eqn:U.
  - (* untouched: the model accepts and returns (h, body) *)
    specialize (Hin eq_refl).
    unfold unchanged in U. repeat (apply andb_true_iff in U as [U ?]).
    apply bytes_eqb_eq in U. apply bytes_eqb_eq in H0. apply bytes_eqb_eq in H1.
    apply opt_key_eqb_eq in H. subst hb' sg' k'.
    unfold verify_c, verify. cbn [m_hb m_sig].
    rewrite Hhb, (parse_ser_hb h body W).
    rewrite ad_len_concat, H0. rewrite ad_len_concat in Hlen. cbn [concat] in Hlen.
    rewrite app_nil_r in Hlen. rewrite Hlen, Z.eqb_refl. cbn [negb].
    unfold kind_c. cbn [fst]. rewrite Halg. cbn [negb].
    unfold sig_input. rewrite (hash_of_nonzero _ _ Halg), H0, <- Hhb.
    rewrite (in_sig_valid_c tbl (1, kid) _ _ Hin). cbn [to_opt]. apply out_eqb_refl.
  - (* changed: the model rejects unless it is a splice *)
    destruct (verify_c tbl hb' sg' k' ad') as [[h' b']|e] eqn:V; [|reflexivity].
    exfalso. unfold verify_c in V.
    apply verify_ok_inv in V. destruct V as (k & -> & P & L & A & Sv).
    cbn [m_hb m_sig] in *.
    apply sig_valid_c_in in Sv. apply Hon in Sv. inversion Sv as [[S1 S2 S3]].
    unfold sig_input in S2. unfold kind_c in A.
    rewrite (hash_of_nonzero _ _ A) in S2. unfold hash_c in S2. inversion S2 as [[S4 S5]].
    unfold known_splice in Hk. rewrite S5, bytes_eqb_refl, andb_true_r in Hk.
    apply negb_false_iff in Hk. apply bytes_eqb_eq in Hk. subst hb'.
    apply app_inv_head in S5.
    unfold unchanged in U. rewrite !bytes_eqb_refl, S5, bytes_eqb_refl in U. cbn [andb] in U.
    destruct k as [k1 k2]. cbn [snd fst] in *. subst k2.
    assert (k1 = 1).
    { unfold check_algo in A. destruct (algo_details (h_algo h')) as [[p q]|]; [|discriminate].
      destruct (k1 =? 1) eqn:E; [now apply N.eqb_eq in E|discriminate]. }
    subst k1. cbn in U. rewrite S3, bytes_eqb_refl, N.eqb_refl in U. discriminate.
Qed.

Lemma oracle_sign_model k h body ad :
  signable h body ->
  let m := model_sign k h body ad in oracle_sign h body (fst m) (snd m) = true.
Proof.
  intros W m. unfold m, model_sign, oracle_sign.
  destruct (sign_c k h body ad) as [mm|e] eqn:S; cbn [fst snd]; [|reflexivity].
  unfold sign_c in S. apply sign_ok_inv in S. destruct S as (kk & _ & _ & _ & ->).
  cbn [m_hb]. rewrite (parse_ser_hb h body W). apply out_eqb_refl.
Qed.

Lemma oracle_raw_model hb' sg' ad' k' tbl :
  oracle_raw hb' sg' ad' k' tbl (to_opt (verify_c tbl hb' sg' k' ad')) = true.
Proof.
  unfold oracle_raw.
  destruct (verify_c tbl hb' sg' k' ad') as [[h' b']|e] eqn:V; cbn [to_opt]; [|reflexivity].
  unfold verify_c in V. apply verify_ok_inv in V. destruct V as (k & -> & P & L & A & Sv).
  cbn [m_hb m_sig] in *. rewrite P, out_eqb_refl, L, Z.eqb_refl. unfold kind_c in A.
  now rewrite A, Sv.
Qed.
