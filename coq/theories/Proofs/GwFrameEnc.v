(** C41 — sender side: every schedule of encoder.Read calls produces a genuine
    frame stream ([chain_from]) that carries exactly the valid packets written. *)
From Coq Require Import List Arith NArith Bool Lia.
From Coq Require Import ZifyBool ZifyN ZifyNat.
From Scion Require Import Lib.Bytes Lib.Check Model.GwFrame Proofs.GwFrameSpec.
Import ListNotations.
Import GwFrame.
Local Open Scope nat_scope.

Lemma skipn_skipn {A} (l : list A) a b : skipn a (skipn b l) = skipn (b + a) l.
Proof.
  revert l. induction b as [|b IH]; intros l; [reflexivity|].
  destruct l as [|x t]; cbn [skipn plus]; [now rewrite skipn_nil|apply IH].
Qed.

Lemma skipn_nil_iff {A} (l : list A) n : skipn n l = [] <-> length l <= n.
Proof.
  split; intros H.
  - pose proof (skipn_length n l) as L. rewrite H in L. cbn in L. lia.
  - now apply skipn_all2.
Qed.

Lemma length_zero_nil {A} (l : list A) : length l = 0 -> l = [].
Proof. destruct l; [reflexivity|discriminate]. Qed.

Lemma qsize_app a b : qsize (a ++ b) = qsize a + qsize b.
Proof. induction a as [|p a IH]; cbn [app qsize fold_right]; [reflexivity|]. fold (qsize (a ++ b)). fold (qsize a). lia. Qed.

Lemma qsize_cons p a : qsize (p :: a) = S (length p + qsize a).
Proof. reflexivity. Qed.

Section Enc.
Variable mtu : nat.
Hypothesis Hmtu : 56 <= mtu.
Let room := mtu - hdr_len.
Variables sess stream : N.

Definition cout_ok (full : nat) (c : carry) : Prop :=
  match c with
  | None => True
  | Some (Q, k) => valid_pkt Q = true /\ 40 <= k < length Q /\ full = room
  end.

Lemma fill_spec : forall q body idx,
  hdr_len + length body <= mtu ->
  exists consumed pkts cout,
    let r := fill mtu body idx q in
    q = consumed ++ fl_queue r /\
    Forall (fun p => valid_pkt p = true) pkts /\
    cout_ok (length (fl_body r)) cout /\
    filter valid_pkt consumed = pkts ++ carry_pkt cout /\
    fl_body r = body ++ concat pkts ++ post_of cout /\
    fl_rest r = pre_of cout /\
    hdr_len + length (fl_body r) <= mtu /\
    fl_index r = match idx with
                 | Some i => Some i
                 | None => match pkts, cout with [], None => None | _, _ => Some (length body) end
                 end /\
    (fl_blocked r = true -> body = [] /\ pkts = [] /\ cout = None /\ fl_queue r = []) /\
    (fl_blocked r = false -> body = [] -> consumed <> []) /\
    length (fl_rest r) + qsize (fl_queue r) + length consumed <= qsize q.
Proof.
  unfold hdr_len in *.
  induction q as [|p q IH]; intros body idx Hpos.
  - exists [], [], None. cbn [fill]. unfold hdr_len.
    destruct (Nat.ltb_spec (mtu - (16 + length body)) 40) as [L|L]; cbn.
    + rewrite !app_nil_r. repeat split; auto; try discriminate; try lia.
      * destruct idx; reflexivity.
      * intros _ ->. cbn in L. lia.
    + rewrite !app_nil_r. repeat split; auto; try lia.
      * destruct idx; reflexivity.
      * apply Nat.eqb_eq in H. apply length_zero_nil. lia.
      * intros E ->. cbn in E. discriminate.
  - cbn [fill]. unfold hdr_len.
    destruct (Nat.ltb_spec (mtu - (16 + length body)) 40) as [L|L].
    + exists [], [], None. cbn. rewrite !app_nil_r. repeat split; auto; try discriminate; try lia.
      * destruct idx; reflexivity.
      * intros _ ->. cbn in L. lia.
    + destruct (valid_pkt p) eqn:Vp.
      * set (n := Nat.min (mtu - (16 + length body)) (length p)).
        destruct (skipn n p) as [|r0 rest] eqn:Er.
        -- (* the packet fits: continue *)
           apply skipn_nil_iff in Er.
           assert (Hn : n = length p) by (unfold n in *; lia).
           assert (Hf : firstn n p = p) by (rewrite Hn; apply firstn_all).
           rewrite Hf.
           set (idx' := match idx with None => Some (16 + length body - 16) | Some _ => idx end).
           destruct (IH (body ++ p) idx') as (consumed & pkts & cout & H).
           { rewrite app_length. unfold n in Hn. lia. }
           cbv zeta in H.
           destruct H as (Hq & Hv & Hc & Hfl & Hb & Hr & Hle & Hi & Hbl & Hnb & Hm).
           exists (p :: consumed), (p :: pkts), cout. cbv zeta.
           split; [cbn [app]; now f_equal|].
           split; [now constructor|].
           split; [exact Hc|].
           split; [cbn [filter]; rewrite Vp; cbn [app]; now f_equal|].
           split; [rewrite Hb; cbn [concat]; now rewrite <- !app_assoc|].
           split; [exact Hr|].
           split; [exact Hle|].
           split.
           { rewrite Hi. unfold idx'. destruct idx; [reflexivity|].
             f_equal. lia. }
           split.
           { intros B. apply Hbl in B as (B & _). destruct body; destruct p; cbn in B; try discriminate;
             cbn in Vp; discriminate. }
           split; [intros _ _; discriminate|].
           cbn [length]. rewrite qsize_cons. lia.
        -- (* the packet does not fit entirely *)
           assert (Hlen : n < length p).
           { destruct (Nat.le_gt_cases (length p) n) as [C|C]; [|exact C].
             apply skipn_nil_iff in C. rewrite C in Er. discriminate. }
           assert (Hn : n = mtu - (16 + length body)) by (unfold n in *; lia).
           exists [p], [], (Some (p, n)). cbv zeta. cbn [fl_queue fl_body fl_rest fl_index fl_blocked].
           split; [reflexivity|]. split; [constructor|].
           split.
           { cbn [cout_ok]. repeat split; try assumption; try lia.
             rewrite app_length, firstn_length. unfold room, hdr_len. lia. }
           split; [cbn [filter]; now rewrite Vp|].
           split; [reflexivity|].
           split; [cbn [pre_of]; now rewrite Er|].
           split; [rewrite app_length, firstn_length; lia|].
           split; [destruct idx; [reflexivity|f_equal; lia]|].
           split; [discriminate|].
           split; [intros _ _; discriminate|].
           rewrite <- Er, skipn_length. cbn [length]. rewrite qsize_cons. lia.
      * (* invalid packet: skipped *)
        destruct (IH body idx Hpos) as (consumed & pkts & cout & H). cbv zeta in H.
        destruct H as (Hq & Hv & Hc & Hfl & Hb & Hr & Hle & Hi & Hbl & Hnb & Hm).
        exists (p :: consumed), pkts, cout. cbv zeta.
        split; [cbn [app]; now f_equal|].
        split; [exact Hv|]. split; [exact Hc|].
        split; [cbn [filter]; now rewrite Vp|].
        split; [exact Hb|]. split; [exact Hr|]. split; [exact Hle|]. split; [exact Hi|].
        split; [exact Hbl|].
        split; [intros _ _; discriminate|].
        cbn [length]. rewrite qsize_cons. lia.
Qed.

(** the encoder's pending bytes are the unsent rest of the carried packet *)
Definition einv (e : enc) (c : carry) : Prop := e_pkt e = pre_of c /\ carry_ok c.

Definition read_post (e : enc) (c : carry) (q : list bytes)
  (res : option bytes * enc * list bytes) : Prop :=
  let '(o, e', q') := res in
  match o with
  | Some fr =>
    exists g, fr = g_bytes room sess stream g /\ g_wf room g /\ g_cin g = c /\ g_seq g = e_seq e /\
      einv e' (g_cout room g) /\ e_seq e' = (e_seq e + 1)%N /\
      exists consumed, q = consumed ++ q' /\ filter valid_pkt consumed = g_started g /\
        length (e_pkt e') + qsize q' < length (e_pkt e) + qsize q
  | None =>
    c = None /\ einv e' None /\ e_seq e' = e_seq e /\ q' = [] /\ filter valid_pkt q = []
  end.

Lemma read_spec e c q : einv e c -> read_post e c q (read mtu sess stream e q).
Proof.
  intros [Hp Hc]. unfold read. fold room.
  assert (Hroom : 40 <= room) by (unfold room, hdr_len; lia).
  destruct c as [[P n]|].
  - (* a packet is under way *)
    cbn [pre_of] in Hp. cbn [carry_ok] in Hc. destruct Hc as [VP Hn].
    assert (Lp : length (e_pkt e) = length P - n) by (rewrite Hp; apply skipn_length).
    set (n0 := Nat.min room (length (e_pkt e))).
    destruct (skipn n0 (e_pkt e)) as [|r0 rest0] eqn:Er.
    + (* the rest fits into this frame *)
      apply skipn_nil_iff in Er.
      assert (Hn0 : n0 = length (e_pkt e)) by (unfold n0 in *; lia).
      assert (Hb0 : firstn n0 (e_pkt e) = skipn n P) by (rewrite Hn0, firstn_all; exact Hp).
      rewrite Hb0.
      destruct (fill_spec q (skipn n P) None) as (consumed & pkts & cout & H).
      { rewrite skipn_length. unfold room, hdr_len in *. lia. }
      cbv zeta in H. destruct H as (Hq & Hv & Hco & Hfl & Hb & Hr & Hle & Hi & Hbl & Hnb & Hm).
      destruct (fl_blocked (fill mtu (skipn n P) None q)) eqn:B.
      { destruct (Hbl eq_refl) as (E & _). apply skipn_nil_iff in E. lia. }
      cbn [read_post].
      exists (GGen (e_seq e) (Some (P, n)) pkts cout).
      split.
      { unfold g_bytes. cbn [g_index g_seq g_payload pre_of]. rewrite Hb. f_equal.
        rewrite Hi. destruct pkts; destruct cout; reflexivity. }
      split.
      { cbn [g_wf carry_ok pre_of]. split; [auto|]. split; [exact Hv|]. split.
        - destruct cout as [[Q k]|]; [|exact I]. cbn [cout_ok] in Hco. tauto.
        - rewrite <- Hb. unfold room, hdr_len in *. lia. }
      split; [reflexivity|]. split; [reflexivity|].
      split.
      { cbn [g_cout e_pkt]. split; [exact Hr|].
        destruct cout as [[Q k]|]; [|exact I]. cbn [cout_ok carry_ok] in *. split; [tauto|lia]. }
      split; [reflexivity|].
      exists consumed. split; [exact Hq|]. split; [exact Hfl|].
      cbn [e_pkt]. lia.
    + (* a full frame of continuation bytes *)
      assert (Hlen : n0 < length (e_pkt e)).
      { destruct (Nat.le_gt_cases (length (e_pkt e)) n0) as [C|C]; [|exact C].
        apply skipn_nil_iff in C. rewrite C in Er. discriminate. }
      assert (Hn0 : n0 = room) by (unfold n0 in *; lia).
      cbn [read_post].
      exists (GMid (e_seq e) P n).
      split; [unfold g_bytes; cbn [g_index g_seq g_payload]; now rewrite Hn0, Hp|].
      split; [cbn [g_wf]; repeat split; try assumption; lia|].
      split; [reflexivity|]. split; [reflexivity|].
      split.
      { cbn [g_cout e_pkt]. split.
        - cbn [pre_of]. rewrite <- Er, Hn0, Hp. apply skipn_skipn.
        - cbn [carry_ok]. split; [assumption|lia]. }
      split; [reflexivity|].
      exists []. split; [reflexivity|]. split; [reflexivity|].
      cbn [e_pkt]. rewrite <- Er, skipn_length. lia.
  - (* no packet under way *)
    cbn [pre_of] in Hp. rewrite Hp. cbn [length]. rewrite Nat.min_0_r. cbn [firstn skipn].
    destruct (fill_spec q [] None) as (consumed & pkts & cout & H).
    { cbn [length]. unfold hdr_len. lia. }
    cbv zeta in H. destruct H as (Hq & Hv & Hco & Hfl & Hb & Hr & Hle & Hi & Hbl & Hnb & Hm).
    destruct (fl_blocked (fill mtu [] None q)) eqn:B.
    + destruct (Hbl eq_refl) as (_ & Ep & Ec & Eq). subst pkts cout. cbn [read_post].
      split; [reflexivity|]. split; [split; [reflexivity|exact I]|]. split; [reflexivity|].
      split; [exact Eq|]. rewrite Hq, Eq, app_nil_r. exact Hfl.
    + cbn [read_post].
      exists (GGen (e_seq e) None pkts cout).
      split.
      { unfold g_bytes. cbn [g_index g_seq g_payload pre_of]. rewrite Hb. cbn [app length]. f_equal.
        rewrite Hi. destruct pkts; destruct cout; reflexivity. }
      split.
      { cbn [g_wf carry_ok pre_of app]. split; [exact I|]. split; [exact Hv|]. split.
        - destruct cout as [[Q k]|]; [|exact I]. cbn [cout_ok] in Hco. tauto.
        - rewrite Hb in Hle. cbn [app] in Hle. unfold room, hdr_len in *. lia. }
      split; [reflexivity|]. split; [reflexivity|].
      split.
      { cbn [g_cout e_pkt]. split; [exact Hr|].
        destruct cout as [[Q k]|]; [|exact I]. cbn [cout_ok carry_ok] in *. split; [tauto|lia]. }
      split; [reflexivity|].
      exists consumed. split; [exact Hq|]. split; [exact Hfl|].
      cbn [e_pkt length]. specialize (Hnb eq_refl eq_refl).
      destruct consumed; [congruence|]. cbn [length] in Hm. lia.
Qed.

Lemma somes_cons_some {A} (x : A) l : somes (Some x :: l) = x :: somes l.
Proof. reflexivity. Qed.
Lemma somes_cons_none {A} (l : list (option A)) : somes (None :: l) = somes l.
Proof. reflexivity. Qed.

Lemma enc_run_spec : forall ops e c q frs e' q',
  einv e c -> enc_run mtu sess stream ops e q = (frs, e', q') ->
  exists G c',
    somes frs = map (g_bytes room sess stream) G /\
    chain_from room c (e_seq e) G c' /\ einv e' c' /\
    e_seq e' = (e_seq e + N.of_nat (length G))%N /\
    filter valid_pkt (q ++ written ops) = concat (map g_started G) ++ filter valid_pkt q'.
Proof.
  induction ops as [|o ops IH]; intros e c q frs e' q' He Hrun.
  - cbn in Hrun. inversion Hrun; subst. exists [], c. cbn.
    split; [reflexivity|]. split; [constructor|]. split; [exact He|]. split; [lia|].
    now rewrite app_nil_r.
  - destruct o as [p|].
    + cbn [enc_run] in Hrun. apply (IH _ c) in Hrun; [|exact He].
      destruct Hrun as (G & c' & H1 & H2 & H3 & H4 & H5).
      exists G, c'. split; [exact H1|]. split; [exact H2|]. split; [exact H3|]. split; [exact H4|].
      cbn [written flat_map]. cbn [app]. fold (written ops).
      rewrite <- H5. f_equal. now rewrite <- app_assoc.
    + cbn [enc_run] in Hrun.
      pose proof (read_spec e c q He) as R.
      destruct (read mtu sess stream e q) as [[o e1] q1].
      destruct (enc_run mtu sess stream ops e1 q1) as [[frs1 e2] q2] eqn:Er.
      inversion Hrun; subst. cbn [read_post] in R.
      destruct o as [fr|].
      * destruct R as (g & Hfr & Wg & Hcin & Hseq & Hinv & Hs1 & consumed & Hq & Hf & _).
        apply (IH _ (g_cout room g)) in Er; [|exact Hinv].
        destruct Er as (G & c' & H1 & H2 & H3 & H4 & H5).
        exists (g :: G), c'. rewrite somes_cons_some. cbn [map length].
        split; [now rewrite H1, Hfr|].
        split.
        { rewrite <- Hcin, <- Hseq. constructor; [exact Wg|]. rewrite Hseq, <- Hs1. exact H2. }
        split; [exact H3|]. split; [lia|].
        cbn [written flat_map app]. fold (written ops).
        cbn [concat]. rewrite <- app_assoc, <- H5, Hq, <- Hf.
        rewrite <- !app_assoc. now rewrite !filter_app.
      * destruct R as (-> & Hinv & Hs1 & -> & Hf).
        apply (IH _ None) in Er; [|exact Hinv].
        destruct Er as (G & c' & H1 & H2 & H3 & H4 & H5).
        exists G, c'. rewrite somes_cons_none.
        split; [exact H1|]. split; [now rewrite <- Hs1|]. split; [exact H3|]. split; [lia|].
        cbn [written flat_map app]. fold (written ops).
        rewrite <- H5. rewrite !filter_app, Hf. reflexivity.
Qed.

Lemma drain_spec : forall fuel e c q,
  einv e c -> length (e_pkt e) + qsize q < fuel ->
  exists G,
    drain fuel mtu sess stream e q = map (g_bytes room sess stream) G /\
    chain_from room c (e_seq e) G None /\
    filter valid_pkt q = concat (map g_started G).
Proof.
  induction fuel as [|fuel IH]; intros e c q He Hf; [lia|].
  cbn [drain].
  pose proof (read_spec e c q He) as R.
  destruct (read mtu sess stream e q) as [[o e1] q1]. cbn [read_post] in R.
  destruct o as [fr|].
  - destruct R as (g & Hfr & Wg & Hcin & Hseq & Hinv & Hs1 & consumed & Hq & Hfl & Hm).
    destruct (IH e1 (g_cout room g) q1 Hinv ltac:(lia)) as (G & H1 & H2 & H3).
    exists (g :: G). cbn [map concat].
    split; [now rewrite H1, Hfr|].
    split.
    { rewrite <- Hcin, <- Hseq. constructor; [exact Wg|]. rewrite Hseq, <- Hs1. exact H2. }
    rewrite Hq, filter_app, Hfl, H3. reflexivity.
  - destruct R as (-> & Hinv & Hs1 & -> & Hfl).
    exists []. cbn. split; [reflexivity|]. split; [constructor|exact Hfl].
Qed.

(** Every schedule yields a genuine frame stream that starts and ends without a
    carried packet, numbered from 0, in which the packets begun (equivalently:
    completed) are exactly the valid packets written, in order. *)
Theorem frames_sched_spec ops :
  exists G,
    frames_sched mtu sess stream ops = map (g_bytes room sess stream) G /\
    chain_from room None 0%N G None /\
    concat (map g_done G) = filter valid_pkt (written ops).
Proof.
  unfold frames_sched.
  destruct (enc_run mtu sess stream ops enc_init []) as [[frs e] q] eqn:Er.
  apply (enc_run_spec _ _ None) in Er; [|split; [reflexivity|exact I]].
  destruct Er as (G1 & c1 & H1 & H2 & H3 & H4 & H5).
  destruct (drain_spec (drain_fuel e q) e c1 q H3) as (G2 & D1 & D2 & D3).
  { unfold drain_fuel. lia. }
  exists (G1 ++ G2). rewrite map_app, H1, D1.
  split; [reflexivity|].
  assert (Hch : chain_from room None 0%N (G1 ++ G2) None).
  { apply chain_from_app. exists c1. split; [exact H2|]. rewrite H4 in D2. exact D2. }
  split; [exact Hch|].
  pose proof (chain_from_account _ _ _ _ _ Hch) as A. cbn [carry_pkt app] in A.
  rewrite app_nil_r in A. rewrite <- A.
  rewrite map_app, concat_app, <- D3. cbn [app] in H5. now rewrite H5.
Qed.

End Enc.
