From Coq Require Import List NArith Bool Lia.
From Scion Require Import Lib.Check Model.BFD.
Import ListNotations.
Import BFD.
Local Open Scope N_scope.

(** * The code's table agrees with RFC 5880 on every event Session.Run generates *)

Lemma transition_recv_rfc s rx :
  s <> AdminDown -> transition s (recv_event rx) = rfc_recv s rx.
Proof. destruct s, rx; cbn; intros H; try reflexivity; now elim H. Qed.

Lemma transition_timer_rfc s :
  s <> AdminDown -> transition s EvTimer = rfc_timer s.
Proof. destruct s; cbn; intros H; try reflexivity; now elim H. Qed.

Lemma rfc_recv_not_admindown s rx : s <> AdminDown -> rfc_recv s rx <> AdminDown.
Proof. destruct s, rx; cbn; intros H; try discriminate; now elim H. Qed.

Lemma rfc_timer_not_admindown s : s <> AdminDown -> rfc_timer s <> AdminDown.
Proof. destruct s; cbn; intros H; try discriminate; now elim H. Qed.

Lemma step_recv_rfc s p :
  local s <> AdminDown -> should_discard p = false ->
  local (step s (Recv p)) = rfc_recv (local s) (p_state p).
Proof. intros H D. cbn. rewrite D. cbn. now apply transition_recv_rfc. Qed.

Lemma step_recv_discard s p : should_discard p = true -> step s (Recv p) = s.
Proof. intros D. cbn. now rewrite D. Qed.

Lemma step_timeout_rfc s :
  local s <> AdminDown -> local (step s Timeout) = rfc_timer (local s).
Proof. intros H. cbn. now apply transition_timer_rfc. Qed.

Lemma step_not_admindown s o : local s <> AdminDown -> local (step s o) <> AdminDown.
Proof.
  intros H. destruct o as [p|].
  - cbn. destruct (should_discard p); [exact H|]. cbn.
    rewrite transition_recv_rfc by exact H. now apply rfc_recv_not_admindown.
  - cbn. rewrite transition_timer_rfc by exact H. now apply rfc_timer_not_admindown.
Qed.

Lemma run_not_admindown ops : forall s, local s <> AdminDown -> local (run s ops) <> AdminDown.
Proof.
  unfold run. induction ops as [|o t IH]; cbn [fold_left]; intros s H; [exact H|].
  apply IH. now apply step_not_admindown.
Qed.

Lemma init_not_admindown rd : local (init rd) <> AdminDown.
Proof. cbn. discriminate. Qed.

(** * Recovery: whatever happened before, a peer that sends Down and then Init
      (what a restarting RFC-conforming peer does) brings the session Up. *)

Lemma should_discard_mk s my your :
  should_discard (mk s my your) =
  (my =? 0) || ((your =? 0) && negb (st_eqb s AdminDown) && negb (st_eqb s Down)).
Proof.
  unfold should_discard, mk; cbn [p_version p_len p_auth p_auth_hdr p_auth_type p_mult
    p_multipoint p_my p_your p_state p_poll p_final p_echo_rx p_demand].
  change (1 =? 1) with true. change (24 <? 24) with false. change (3 =? 0) with false.
  change (0 =? 0) with true. cbn [negb orb andb].
  now rewrite !orb_false_r.
Qed.

Lemma recover_two_packets s my y1 y2 :
  local s <> AdminDown -> my <> 0 -> y2 <> 0 ->
  local (run s [Recv (mk Down my y1); Recv (mk Init my y2)]) = Up.
Proof.
  intros H Hm Hy. unfold run; cbn [fold_left].
  assert (D1 : should_discard (mk Down my y1) = false).
  { rewrite should_discard_mk. apply N.eqb_neq in Hm. rewrite Hm. cbn.
    now rewrite andb_false_r. }
  assert (D2 : should_discard (mk Init my y2) = false).
  { rewrite should_discard_mk. apply N.eqb_neq in Hm, Hy. now rewrite Hm, Hy. }
  rewrite step_recv_rfc; [|now apply step_not_admindown|exact D2].
  rewrite step_recv_rfc; [|exact H|exact D1].
  cbn [p_state mk]. destruct (local s); cbn; try reflexivity. now elim H.
Qed.

(** * Detection: when the detection time passes the session is not Up. *)
Lemma timeout_down s : local s <> AdminDown -> local (step s Timeout) = Down.
Proof. intros H. rewrite step_timeout_rfc by exact H. destruct (local s); cbn; try reflexivity; now elim H. Qed.

(** * The oracle used on observed histories holds on the model. *)
Lemma st_of_code_code s : st_of_code (st_code s) = Some s.
Proof. now destruct s. Qed.

Lemma st_eqb_refl s : st_eqb s s = true.
Proof. now destruct s. Qed.

Lemma st_eqb_neq a b : a <> b -> st_eqb a b = false.
Proof. destruct a, b; cbn; intros H; try reflexivity; now elim H. Qed.

Lemma hist_ok_model ops : forall s, local s <> AdminDown ->
  hist_ok (st_code (local s)) ops (map obs_of (trace s ops)) = true.
Proof.
  induction ops as [|o t IH]; intros s H; cbn [trace map hist_ok]; [reflexivity|].
  unfold obs_of at 1. cbn [fst snd].
  rewrite !st_of_code_code.
  assert (H' : local (step s o) <> AdminDown) by now apply step_not_admindown.
  rewrite (st_eqb_neq _ _ H'). cbn [negb andb].
  rewrite IH by exact H'. rewrite andb_true_r.
  destruct o as [p|].
  - destruct (should_discard p) eqn:D.
    + rewrite step_recv_discard by exact D. apply st_eqb_refl.
    + rewrite step_recv_rfc by assumption. apply st_eqb_refl.
  - rewrite step_timeout_rfc by exact H. apply st_eqb_refl.
Qed.

(** * Two sessions *)

Definition inv_s (s : sess) : Prop :=
  local s <> AdminDown /\ (local s = Init \/ local s = Up -> rdisc s <> 0).

Definition Inv (p : pair) : Prop :=
  inv_s (sa p) /\ inv_s (sb p) /\ da p <> 0 /\ db p <> 0.

Lemma should_discard_my0 p : p_my p = 0 -> should_discard p = true.
Proof.
  intros E. unfold should_discard. rewrite E. change (0 =? 0) with true.
  rewrite !orb_true_r. reflexivity.
Qed.

Lemma step_inv s o : inv_s s -> inv_s (step s o).
Proof.
  intros [H1 H2]. split; [now apply step_not_admindown|].
  destruct o as [p|].
  - cbn. destruct (should_discard p) eqn:D; [exact H2|]. cbn. intros _.
    destruct (rdisc s =? 0) eqn:E.
    + intros E0. rewrite should_discard_my0 in D by exact E0. discriminate.
    + now apply N.eqb_neq.
  - cbn. intros [E|E]; destruct (local s); cbn in E; try discriminate; now elim H1.
Qed.

Lemma pstep_inv p o : Inv p -> Inv (pstep p o).
Proof.
  intros (Ha & Hb & Hda & Hdb).
  destruct o; unfold pstep.
  1,2,5,6: (unfold Inv; cbn [sa sb da db]; repeat split; assumption || apply Ha || apply Hb).
  - destruct (ab p); unfold Inv; cbn [sa sb da db]; repeat split;
      try assumption; try apply Ha; try apply Hb; try (apply step_inv; exact Hb).
  - destruct (ba p); unfold Inv; cbn [sa sb da db]; repeat split;
      try assumption; try apply Ha; try apply Hb; try (apply step_inv; exact Ha).
  - unfold Inv; cbn [sa sb da db]; repeat split;
      try assumption; try apply Hb; try (apply step_inv; exact Ha).
  - unfold Inv; cbn [sa sb da db]; repeat split;
      try assumption; try apply Ha; try (apply step_inv; exact Hb).
Qed.

Lemma prun_inv os : forall p, Inv p -> Inv (prun p os).
Proof.
  unfold prun. induction os as [|o t IH]; cbn [fold_left]; intros p H; [exact H|].
  apply IH. now apply pstep_inv.
Qed.

Lemma pinit_inv da0 db0 : da0 <> 0 -> db0 <> 0 -> Inv (pinit da0 db0).
Proof. intros; unfold Inv, inv_s; cbn. repeat split; try discriminate; try assumption;
  intros [E|E]; discriminate. Qed.

Lemma emit_not_discarded s d : inv_s s -> d <> 0 -> should_discard (emit s d) = false.
Proof.
  intros [H1 H2] Hd. unfold emit. rewrite should_discard_mk.
  apply N.eqb_neq in Hd. rewrite Hd. cbn [orb].
  destruct (local s) eqn:E; cbn.
  - now rewrite andb_false_r.
  - now rewrite andb_false_r.
  - assert (H : rdisc s <> 0) by (apply H2; now left). apply N.eqb_neq in H. now rewrite H.
  - assert (H : rdisc s <> 0) by (apply H2; now right). apply N.eqb_neq in H. now rewrite H.
Qed.

(** the effect of one loss-free round on the two local states *)
Definition round_st (a b : st) : st * st :=
  let b' := rfc_recv b a in (rfc_recv a b', b').

Lemma round_compute sa0 sb0 da0 db0 :
  prun {| sa := sa0; sb := sb0; da := da0; db := db0; ab := []; ba := [] |} round =
  let sb' := step sb0 (Recv (emit sa0 da0)) in
  {| sa := step sa0 (Recv (emit sb' db0)); sb := sb'; da := da0; db := db0; ab := []; ba := [] |}.
Proof. reflexivity. Qed.

Lemma round_effect p :
  Inv p -> ab p = [] -> ba p = [] ->
  let q := prun p round in
  Inv q /\ ab q = [] /\ ba q = [] /\
  (local (sa q), local (sb q)) = round_st (local (sa p)) (local (sb p)).
Proof.
  intros I Eab Eba q.
  assert (Iq : Inv q) by (now apply prun_inv).
  destruct I as (Ha & Hb & Hda & Hdb).
  destruct p as [sa0 sb0 da0 db0 ab0 ba0]. cbn [sa sb da db ab ba] in *. subst ab0 ba0.
  subst q. rewrite round_compute in *. cbn zeta in *. cbn [sa sb da db ab ba] in *.
  split; [exact Iq|split; [reflexivity|split; [reflexivity|]]].
  unfold round_st.
  assert (Hb' : inv_s (step sb0 (Recv (emit sa0 da0)))) by now apply step_inv.
  rewrite (step_recv_rfc sa0); [|apply Ha|now apply emit_not_discarded].
  rewrite (step_recv_rfc sb0); [|apply Hb|now apply emit_not_discarded].
  unfold emit, mk; cbn [p_state].
  rewrite (step_recv_rfc sb0); [|apply Hb|now apply emit_not_discarded].
  reflexivity.
Qed.

Fixpoint iter_round (n : nat) (ab_ : st * st) : st * st :=
  match n with O => ab_ | S k => iter_round k (round_st (fst ab_) (snd ab_)) end.

Lemma three_rounds_up a b :
  a <> AdminDown -> b <> AdminDown -> iter_round 3 (a, b) = (Up, Up).
Proof. destruct a, b; cbn; intros Ha Hb; try reflexivity; try now elim Ha; now elim Hb. Qed.

Lemma up_fixpoint n : iter_round n (Up, Up) = (Up, Up).
Proof. induction n as [|n IH]; cbn; [reflexivity|exact IH]. Qed.

Lemma iter_round_add n m x : iter_round (n + m) x = iter_round m (iter_round n x).
Proof. revert x; induction n as [|n IH]; intros x; cbn; [reflexivity|apply IH]. Qed.

Lemma rounds_effect n : forall p,
  Inv p -> ab p = [] -> ba p = [] ->
  let q := prun p (rounds n) in
  Inv q /\ ab q = [] /\ ba q = [] /\
  (local (sa q), local (sb q)) = iter_round n (local (sa p), local (sb p)).
Proof.
  induction n as [|n IH]; intros p I Eab Eba; cbn [rounds iter_round].
  - cbn. repeat split; try assumption; apply I.
  - unfold prun. rewrite fold_left_app. fold (prun p round).
    destruct (round_effect p I Eab Eba) as (I' & Eab' & Eba' & E).
    fold (prun (prun p round) (rounds n)).
    destruct (IH _ I' Eab' Eba') as (I'' & Eab'' & Eba'' & E'').
    repeat split; try assumption; try apply I''.
    rewrite E''. rewrite E. reflexivity.
Qed.

Lemma two_sessions_up p n :
  Inv p -> ab p = [] -> ba p = [] -> (3 <= n)%nat ->
  let q := prun p (rounds n) in local (sa q) = Up /\ local (sb q) = Up.
Proof.
  intros I Eab Eba Hn q.
  destruct (rounds_effect n p I Eab Eba) as (_ & _ & _ & E). fold q in E.
  replace n with (3 + (n - 3))%nat in E by lia.
  rewrite iter_round_add in E.
  rewrite three_rounds_up in E by apply I.
  rewrite up_fixpoint in E. now inversion E.
Qed.

(** flushing what is in flight leaves the queues empty and keeps the invariant *)
Lemma prun_app p l1 l2 : prun p (l1 ++ l2) = prun (prun p l1) l2.
Proof. unfold prun. apply fold_left_app. Qed.

Lemma deliv_ab_all k : forall p, length (ab p) = k ->
  ab (prun p (repeat DelivAB k)) = [] /\ ba (prun p (repeat DelivAB k)) = ba p.
Proof.
  induction k as [|k IH]; intros p E; cbn [repeat].
  - cbn. destruct (ab p); [now split|discriminate].
  - destruct (ab p) as [|m t] eqn:Eab; [discriminate|].
    change (prun p (DelivAB :: repeat DelivAB k)) with (prun (pstep p DelivAB) (repeat DelivAB k)).
    assert (E' : length (ab (pstep p DelivAB)) = k).
    { cbn. rewrite Eab. cbn. cbn in E. now inversion E. }
    destruct (IH _ E') as [A B]. split; [exact A|]. rewrite B. cbn. now rewrite Eab.
Qed.

Lemma deliv_ba_all k : forall p, length (ba p) = k ->
  ba (prun p (repeat DelivBA k)) = [] /\ ab (prun p (repeat DelivBA k)) = ab p.
Proof.
  induction k as [|k IH]; intros p E; cbn [repeat].
  - cbn. destruct (ba p); [now split|discriminate].
  - destruct (ba p) as [|m t] eqn:Eba; [discriminate|].
    change (prun p (DelivBA :: repeat DelivBA k)) with (prun (pstep p DelivBA) (repeat DelivBA k)).
    assert (E' : length (ba (pstep p DelivBA)) = k).
    { cbn. rewrite Eba. cbn. cbn in E. now inversion E. }
    destruct (IH _ E') as [A B]. split; [exact A|]. rewrite B. cbn. now rewrite Eba.
Qed.

Lemma flush_empties p :
  ab (prun p (flush p)) = [] /\ ba (prun p (flush p)) = [].
Proof.
  unfold flush. rewrite prun_app.
  destruct (deliv_ab_all (length (ab p)) p eq_refl) as [A B].
  set (p1 := prun p (repeat DelivAB (length (ab p)))) in *.
  rewrite <- B.
  destruct (deliv_ba_all (length (ba p1)) p1 eq_refl) as [C D].
  split; [now rewrite D|exact C].
Qed.

(** Main statement: from any reachable configuration of two sessions (any
    history of sends, deliveries, losses and detection timeouts), once the link
    delivers again both sessions are Up after three exchanges and stay Up. *)
Lemma two_sessions_recover da0 db0 hist n :
  da0 <> 0 -> db0 <> 0 -> (3 <= n)%nat ->
  let p := prun (pinit da0 db0) hist in
  let q := prun p (flush p ++ rounds n) in
  local (sa q) = Up /\ local (sb q) = Up.
Proof.
  intros Ha Hb Hn p q. subst q. rewrite prun_app.
  assert (I : Inv p) by (apply prun_inv; now apply pinit_inv).
  destruct (flush_empties p) as [A B].
  apply two_sessions_up; try assumption. now apply prun_inv.
Qed.
