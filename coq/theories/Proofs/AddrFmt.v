(** Lemmas about Model/AddrFmt.v (C46). *)
From Coq Require Import String Ascii.
From Coq Require Import List NArith ZArith Bool Lia ZifyBool ZifyN ZifyNat.
From Scion Require Import Lib.Check Model.AddrFmt.
Import ListNotations.
Import AddrFmt.
Local Open Scope N_scope.

Ltac Zify.zify_post_hook ::= Z.div_mod_to_equations.

(** ---------------------------------------------------------------- strings *)
Lemma str_eqb_eq (a b : str) : str_eqb a b = true <-> a = b.
Proof. apply list_eqb_eq. intros; apply N.eqb_eq. Qed.

Lemma str_eqb_refl (a : str) : str_eqb a a = true.
Proof. now apply str_eqb_eq. Qed.

(** ---------------------------------------------------------------- digits *)
Lemma digit_val_dchar b d : 2 <= b <= 16 -> d < b -> digit_val b (dchar d) = Some d.
Proof.
  intros Hb Hd. unfold digit_val, dchar, is_dec.
  destruct (d <? 10) eqn:E.
  - replace ((48 <=? 48 + d) && (48 + d <=? 57)) with true by lia.
    replace (48 + d - 48) with d by lia. now replace (d <? b) with true by lia.
  - replace ((48 <=? 87 + d) && (87 + d <=? 57)) with false by lia.
    replace ((97 <=? 87 + d) && (87 + d <=? 122)) with true by lia.
    replace (87 + d - 87) with d by lia. now replace (d <? b) with true by lia.
Qed.

Lemma digits_val_app b x y acc :
  digits_val b (x ++ y) acc =
  match digits_val b x acc with Some a => digits_val b y a | None => None end.
Proof.
  revert acc. induction x as [|c x IH]; intros acc; cbn [app digits_val]; [reflexivity|].
  destruct (digit_val b c); [apply IH | reflexivity].
Qed.

Lemma pr_val b : 2 <= b <= 16 -> forall f v, v < 2 ^ N.of_nat f -> digits_val b (pr f b v) 0 = Some v.
Proof.
  intros Hb. induction f as [|f IH]; intros v Hv.
  - cbn in Hv. cbn [pr digits_val]. f_equal. lia.
  - cbn [pr]. destruct (v =? 0) eqn:E.
    + cbn [digits_val]. f_equal. lia.
    + rewrite digits_val_app, IH.
      * cbn [digits_val]. rewrite digit_val_dchar by (try assumption; apply N.mod_lt; lia).
        f_equal. rewrite N.mul_comm. symmetry. apply N.div_mod. lia.
      * rewrite Nnat.Nat2N.inj_succ, N.pow_succ_r' in Hv.
        apply N.div_lt_upper_bound; [lia|].
        apply N.lt_le_trans with (1 := Hv). apply N.mul_le_mono_r. lia.
Qed.

Lemma lt_pow_log2 v : v < 2 ^ N.of_nat (S (N.to_nat (N.log2 v))).
Proof.
  rewrite Nnat.Nat2N.inj_succ, Nnat.N2Nat.id.
  destruct (N.eq_dec v 0) as [->|Hn]; [cbn; lia|].
  apply N.log2_spec. lia.
Qed.

Lemma pr'_val b v : 2 <= b <= 16 -> digits_val b (pr' b v) 0 = Some v.
Proof. intros Hb. apply pr_val; [assumption | apply lt_pow_log2]. Qed.

Lemma pr_nonempty f b v : v <> 0 -> pr (S f) b v <> [].
Proof.
  intros Hv. cbn [pr]. replace (v =? 0) with false by lia.
  intros H. apply app_eq_nil in H. destruct H as [_ H]. discriminate.
Qed.

Lemma print_uint_nonempty b v : print_uint b v <> [].
Proof.
  unfold print_uint. destruct (v =? 0) eqn:E; [discriminate|].
  apply pr_nonempty. lia.
Qed.

Lemma print_uint_val b v : 2 <= b <= 16 -> digits_val b (print_uint b v) 0 = Some v.
Proof.
  intros Hb. unfold print_uint. destruct (v =? 0) eqn:E.
  - assert (v = 0) by lia. subst. cbn [digits_val]. unfold digit_val, is_dec. cbn.
    now replace (0 <? b) with true by lia.
  - now apply pr'_val.
Qed.

Lemma parse_print_uint b bits v :
  2 <= b <= 16 -> v < 2 ^ bits -> parse_uint b bits (print_uint b v) = Some v.
Proof.
  intros Hb Hv. unfold parse_uint.
  destruct (print_uint b v) eqn:E; [now apply print_uint_nonempty in E|].
  rewrite <- E, print_uint_val by assumption. now replace (v <? 2 ^ bits) with true by lia.
Qed.

Lemma print_uint_inj b v w : 2 <= b <= 16 -> print_uint b v = print_uint b w -> v = w.
Proof.
  intros Hb E. pose proof (print_uint_val b v Hb) as H1. rewrite E, print_uint_val in H1 by assumption.
  congruence.
Qed.

(** characters produced by the printer *)
Lemma pr_chars b f v c : 2 <= b -> In c (pr f b v) -> exists d, d < b /\ c = dchar d.
Proof.
  intros Hb. revert v. induction f as [|f IH]; intros v Hin; [destruct Hin|].
  cbn [pr] in Hin. destruct (v =? 0); [destruct Hin|].
  apply in_app_or in Hin. destruct Hin as [Hin|[<-|[]]]; [eauto|].
  exists (v mod b). split; [apply N.mod_lt; lia | reflexivity].
Qed.

Lemma print_uint_chars b v c : 2 <= b -> In c (print_uint b v) -> exists d, d < b /\ c = dchar d.
Proof.
  intros Hb. unfold print_uint. destruct (v =? 0).
  - intros [<-|[]]. exists 0. split; [lia | reflexivity].
  - now apply pr_chars.
Qed.

Lemma dchar_dec d : d < 10 -> is_dec (dchar d) = true.
Proof. intros H. unfold dchar, is_dec. replace (d <? 10) with true by lia. lia. Qed.

(** lower-case hex digit *)
Definition is_lhex (c : N) : bool := is_dec c || ((97 <=? c) && (c <=? 102)).

Lemma dchar_lhex d : d < 16 -> is_lhex (dchar d) = true.
Proof. intros H. unfold dchar, is_lhex, is_dec. destruct (d <? 10) eqn:E; lia. Qed.

Lemma is_lhex_hex c : is_lhex c = true -> is_hex c = true.
Proof. unfold is_lhex, is_hex, is_dec. lia. Qed.

Lemma print10_dec v : forallb is_dec (print_uint 10 v) = true.
Proof.
  apply forallb_forall. intros c Hc. apply print_uint_chars in Hc; [|lia].
  destruct Hc as (d & Hd & ->). now apply dchar_dec.
Qed.

Lemma print16_lhex v : forallb is_lhex (print_uint 16 v) = true.
Proof.
  apply forallb_forall. intros c Hc. apply print_uint_chars in Hc; [|lia].
  destruct Hc as (d & Hd & ->). now apply dchar_lhex.
Qed.

(** ---------------------------------------------------------------- the printer does not depend on its fuel *)
Lemma pr_stable b : 2 <= b -> forall f g v,
  v < 2 ^ N.of_nat f -> v < 2 ^ N.of_nat g -> pr f b v = pr g b v.
Proof.
  intros Hb. induction f as [|f IH]; intros g v Hf Hg.
  - cbn in Hf. assert (v = 0) by lia. subst. destruct g; reflexivity.
  - destruct g as [|g].
    + cbn in Hg. assert (v = 0) by lia. subst. reflexivity.
    + cbn [pr]. destruct (v =? 0) eqn:E; [reflexivity|]. f_equal.
      rewrite Nnat.Nat2N.inj_succ, N.pow_succ_r' in Hf, Hg.
      apply IH; (apply N.div_lt_upper_bound; [lia|]).
      * apply N.lt_le_trans with (1 := Hf). apply N.mul_le_mono_r. lia.
      * apply N.lt_le_trans with (1 := Hg). apply N.mul_le_mono_r. lia.
Qed.

Lemma pr'_zero b : pr' b 0 = [].
Proof. reflexivity. Qed.

Lemma pr'_step b v : 2 <= b -> v <> 0 -> pr' b v = pr' b (v / b) ++ [dchar (v mod b)].
Proof.
  intros Hb Hv. unfold pr' at 1. cbn [pr]. replace (v =? 0) with false by lia. f_equal.
  apply pr_stable; [assumption| |apply lt_pow_log2].
  pose proof (lt_pow_log2 v) as H. rewrite Nnat.Nat2N.inj_succ, N.pow_succ_r' in H.
  apply N.div_lt_upper_bound; [lia|].
  apply N.lt_le_trans with (1 := H). apply N.mul_le_mono_r. lia.
Qed.

Lemma pr'_nil_iff b v : 2 <= b -> (pr' b v = [] <-> v = 0).
Proof.
  intros Hb. split; [|intros ->; reflexivity].
  intros H. destruct (N.eq_dec v 0) as [|Hn]; [assumption|].
  rewrite pr'_step in H by assumption. apply app_eq_nil in H. destruct H as [_ H]. discriminate.
Qed.

(** ---------------------------------------------------------------- accepted digit strings spell their value *)
Lemma digit_val_lower b c d : b <= 16 -> digit_val b c = Some d -> dchar d = lower_hex c /\ d < b.
Proof.
  unfold digit_val, dchar, lower_hex, is_dec. intros Hb.
  destruct ((48 <=? c) && (c <=? 57)) eqn:E1.
  - destruct (c - 48 <? b) eqn:E; [|discriminate]. intros [= <-].
    replace (c - 48 <? 10) with true by lia. replace ((65 <=? c) && (c <=? 70)) with false by lia. lia.
  - destruct ((97 <=? c) && (c <=? 122)) eqn:E2.
    + destruct (c - 87 <? b) eqn:E; [|discriminate]. intros [= <-].
      replace (c - 87 <? 10) with false by lia. replace ((65 <=? c) && (c <=? 70)) with false by lia. lia.
    + destruct ((65 <=? c) && (c <=? 90)) eqn:E3; [|discriminate].
      destruct (c - 55 <? b) eqn:E; [|discriminate]. intros [= <-].
      replace (c - 55 <? 10) with false by lia. replace ((65 <=? c) && (c <=? 70)) with true by lia. lia.
Qed.

Lemma digit_val_zero b c : digit_val b c = Some 0 -> c = 48.
Proof.
  unfold digit_val, is_dec.
  destruct ((48 <=? c) && (c <=? 57)) eqn:E1.
  - destruct (c - 48 <? b); [|discriminate]. intros [= H]. lia.
  - destruct ((97 <=? c) && (c <=? 122)) eqn:E2.
    + destruct (c - 87 <? b); [|discriminate]. intros [= H]. lia.
    + destruct ((65 <=? c) && (c <=? 90)) eqn:E3; [|discriminate].
      destruct (c - 55 <? b); [|discriminate]. intros [= H]. lia.
Qed.

Lemma lower_hex_dchar_ne0 d : d <> 0 -> d < 16 -> dchar d <> 48.
Proof. intros H1 H2. unfold dchar. destruct (d <? 10) eqn:E; lia. Qed.

Lemma strip0_cons_ne c t : c <> 48 -> strip0 (c :: t) = c :: t.
Proof. intros H. cbn [strip0]. now replace (c =? 48) with false by lia. Qed.

Lemma strip0_digits b : 2 <= b <= 16 -> forall s acc v,
  digits_val b s acc = Some v ->
  pr' b v = match pr' b acc with
            | [] => strip0 (map lower_hex s)
            | p => p ++ map lower_hex s
            end.
Proof.
  intros Hb. induction s as [|c t IH]; intros acc v H.
  - cbn [digits_val] in H. injection H as <-. cbn [map strip0]. destruct (pr' b acc); [reflexivity|].
    now rewrite app_nil_r.
  - cbn [digits_val] in H. destruct (digit_val b c) as [d|] eqn:Ed; [|discriminate].
    apply IH in H. rewrite H. clear H IH.
    pose proof (digit_val_lower b c d ltac:(lia) Ed) as [Hl Hd].
    destruct (N.eq_dec (acc * b + d) 0) as [Hz|Hnz].
    + assert (acc = 0) by nia. assert (d = 0) by nia. subst acc d.
      rewrite Hz. rewrite pr'_zero. cbn [map]. rewrite <- Hl. reflexivity.
    + rewrite (pr'_step b (acc * b + d)); [|lia|exact Hnz].
      replace ((acc * b + d) / b) with acc by (apply N.div_unique with d; lia).
      replace ((acc * b + d) mod b) with d by (apply N.mod_unique with acc; lia).
      cbn [map]. rewrite <- Hl.
      destruct (pr' b acc) as [|p0 p] eqn:Ep.
      * apply pr'_nil_iff in Ep; [|lia]. subst acc.
        cbn [app]. rewrite strip0_cons_ne; [reflexivity|].
        apply lower_hex_dchar_ne0; lia.
      * cbn [app]. destruct (p ++ [dchar d]) eqn:E2; [now destruct p|].
        rewrite <- E2. now rewrite <- app_assoc.
Qed.

Lemma canon_digits b s v :
  b = 10 \/ b = 16 -> digits_val b s 0 = Some v -> canon b s = print_uint b v.
Proof.
  intros Hb H.
  assert (Hs : strip0 (map lower_hex s) = pr' b v).
  { symmetry. rewrite (strip0_digits b ltac:(lia) s 0 v H). now rewrite pr'_zero. }
  assert (Hm : b = 10 -> map lower_hex s = s).
  { intros ->. clear Hs Hb.
    revert H. generalize 0. induction s as [|c t IH]; intros acc H; [reflexivity|].
    cbn [digits_val] in H. destruct (digit_val 10 c) as [d|] eqn:Ed; [|discriminate].
    cbn [map]. rewrite (IH _ H). f_equal.
    unfold digit_val, is_dec in Ed. unfold lower_hex.
    destruct ((48 <=? c) && (c <=? 57)) eqn:E1; [now replace ((65 <=? c) && (c <=? 70)) with false by lia|].
    destruct ((97 <=? c) && (c <=? 122)) eqn:E2.
    - destruct (c - 87 <? 10) eqn:E; [lia|discriminate].
    - destruct ((65 <=? c) && (c <=? 90)) eqn:E3; [|discriminate].
      destruct (c - 55 <? 10) eqn:E; [lia|discriminate]. }
  unfold canon, print_uint.
  assert (Hst : strip0 (if b =? 16 then map lower_hex s else s) = pr' b v).
  { destruct (b =? 16) eqn:E16; [exact Hs|].
    rewrite <- Hm; [exact Hs|]. destruct Hb as [Hb|Hb]; [assumption|subst; discriminate E16]. }
  rewrite Hst. destruct (v =? 0) eqn:Ev.
  - assert (v = 0) by lia. subst. now rewrite pr'_zero.
  - destruct (pr' b v) eqn:Ep; [|reflexivity].
    apply pr'_nil_iff in Ep; lia.
Qed.

Lemma parse_uint_num_ok b bits s v :
  b = 10 \/ b = 16 -> parse_uint b bits s = Some v -> num_ok b (2 ^ bits - 1) s v = true.
Proof.
  intros Hb H. unfold parse_uint in H. destruct s as [|c t]; [discriminate|].
  destruct (digits_val b (c :: t) 0) as [w|] eqn:E; [|discriminate].
  destruct (w <? 2 ^ bits) eqn:Ew; [|discriminate]. injection H as <-.
  unfold num_ok. cbn [is_nil negb andb]. rewrite (canon_digits b _ w Hb E), str_eqb_refl. cbn [andb].
  assert (0 < 2 ^ bits) by (apply N.neq_0_lt_0, N.pow_nonzero; lia). lia.
Qed.

(** a spelling determines its value *)
Lemma num_ok_inj b m s v w : b = 10 \/ b = 16 -> num_ok b m s v = true -> num_ok b m s w = true -> v = w.
Proof.
  unfold num_ok. intros Hb H1 H2.
  apply andb_true_iff in H1. destruct H1 as [H1 _]. apply andb_true_iff in H1. destruct H1 as [_ H1].
  apply andb_true_iff in H2. destruct H2 as [H2 _]. apply andb_true_iff in H2. destruct H2 as [_ H2].
  apply str_eqb_eq in H1. apply str_eqb_eq in H2. apply (print_uint_inj b); [lia|congruence].
Qed.

(** ---------------------------------------------------------------- strings.Split *)
Lemma is_prefix_app p r : is_prefix p (p ++ r) = true.
Proof. induction p as [|a p IH]; cbn [app is_prefix]; [reflexivity|]. now rewrite N.eqb_refl. Qed.

Lemma is_prefix_true p s : is_prefix p s = true -> s = p ++ skipn (length p) s.
Proof.
  revert s. induction p as [|a p IH]; intros s H; [reflexivity|].
  destruct s as [|b s]; [discriminate|]. cbn [is_prefix] in H.
  apply andb_true_iff in H. destruct H as [H1 H2]. apply N.eqb_eq in H1. subst b.
  cbn [length skipn app]. f_equal. now apply IH.
Qed.

Lemma skipn_app_exact {A} (p r : list A) : skipn (length p) (p ++ r) = r.
Proof. induction p; [reflexivity|assumption]. Qed.

Lemma trim_prefix_app p s : trim_prefix p (p ++ s) = Some s.
Proof. unfold trim_prefix. now rewrite is_prefix_app, skipn_app_exact. Qed.

Lemma trim_prefix_some p s t : trim_prefix p s = Some t -> s = p ++ t.
Proof.
  unfold trim_prefix. destruct (is_prefix p s) eqn:E; [|discriminate]. intros [= <-].
  now apply is_prefix_true.
Qed.

Lemma split_go_skip sep x r cur : split_go sep (x ++ r) (length x) cur = split_go sep r 0 cur.
Proof. induction x as [|a x IH]; [reflexivity|]. cbn [app length split_go]. exact IH. Qed.

Lemma split_go_sep h p r cur :
  split_go (h :: p) ((h :: p) ++ r) 0 cur = rev cur :: split_go (h :: p) r 0 [].
Proof.
  cbn [app split_go]. replace (is_prefix (h :: p) (h :: p ++ r)) with true
    by (symmetry; apply (is_prefix_app (h :: p) r)).
  f_equal. cbn [length]. rewrite Nat.sub_succ, Nat.sub_0_r. apply split_go_skip.
Qed.

Lemma split_go_nohead h p g r cur :
  ~ In h g -> split_go (h :: p) (g ++ r) 0 cur = split_go (h :: p) r 0 (rev g ++ cur).
Proof.
  revert cur. induction g as [|c g IH]; intros cur Hn; [reflexivity|].
  cbn [app split_go is_prefix].
  replace (h =? c) with false by (symmetry; apply N.eqb_neq; intros ->; apply Hn; now left).
  cbn [andb]. rewrite IH by (intros Hi; apply Hn; now right).
  cbn [rev]. now rewrite <- app_assoc.
Qed.

Lemma split_join h p parts :
  parts <> [] -> Forall (fun g => ~ In h g) parts -> split (h :: p) (join (h :: p) parts) = parts.
Proof.
  unfold split. induction parts as [|x t IH]; intros Hne Hf; [congruence|].
  inversion Hf as [|? ? Hx Ht]; subst. destruct t as [|y t].
  - cbn [join]. rewrite <- (app_nil_r x) at 1. rewrite split_go_nohead by assumption.
    cbn [split_go]. now rewrite app_nil_r, rev_involutive.
  - change (join (h :: p) (x :: y :: t)) with (x ++ (h :: p) ++ join (h :: p) (y :: t)).
    rewrite split_go_nohead by assumption. rewrite split_go_sep.
    rewrite app_nil_r, rev_involutive. f_equal. apply IH; [discriminate|assumption].
Qed.

Lemma split_go_nonempty sep s k cur : split_go sep s k cur <> [].
Proof.
  revert k cur. induction s as [|c t IH]; intros k cur; cbn [split_go]; [discriminate|].
  destruct k; [|apply IH]. destruct (is_prefix sep (c :: t)); [discriminate|apply IH].
Qed.

Lemma join_cons sep x l : l <> [] -> join sep (x :: l) = x ++ sep ++ join sep l.
Proof. destruct l; [congruence|reflexivity]. Qed.

Lemma join_split_go h p : forall n s cur, (length s <= n)%nat ->
  join (h :: p) (split_go (h :: p) s 0 cur) = rev cur ++ s.
Proof.
  induction n as [|n IH]; intros s cur Hn.
  - destruct s; [|cbn in Hn; lia]. cbn. now rewrite app_nil_r.
  - destruct s as [|c t]; [cbn; now rewrite app_nil_r|].
    cbn [split_go]. destruct (is_prefix (h :: p) (c :: t)) eqn:E.
    + apply is_prefix_true in E. cbn [length skipn app] in E. injection E as -> E.
      rewrite join_cons by apply split_go_nonempty.
      cbn [length]. rewrite Nat.sub_succ, Nat.sub_0_r.
      rewrite E at 1. rewrite split_go_skip. rewrite IH.
      * cbn [rev app]. rewrite E at 2. reflexivity.
      * cbn [length] in Hn. rewrite skipn_length. lia.
    + rewrite IH by (cbn [length] in Hn; lia). cbn [rev]. now rewrite <- app_assoc.
Qed.

Lemma join_split sep s : sep <> [] -> join sep (split sep s) = s.
Proof.
  destruct sep as [|h p]; [congruence|]. intros _. unfold split.
  now rewrite (join_split_go h p (length s) s []).
Qed.

Lemma split_three sep s a b c : sep <> [] -> split sep s = [a; b; c] -> s = a ++ sep ++ b ++ sep ++ c.
Proof. intros Hs H. rewrite <- (join_split sep s Hs), H. reflexivity. Qed.

Lemma split_two sep s a b : sep <> [] -> split sep s = [a; b] -> s = a ++ sep ++ b.
Proof. intros Hs H. rewrite <- (join_split sep s Hs), H. reflexivity. Qed.

(** ---------------------------------------------------------------- separators *)
Lemma not_in_hex h g : is_hex h = false -> forallb is_hex g = true -> ~ In h g.
Proof.
  intros Hh Hg Hin. rewrite forallb_forall in Hg. apply Hg in Hin. congruence.
Qed.

Lemma forallb_impl {A} (f g : A -> bool) l :
  (forall x, f x = true -> g x = true) -> forallb f l = true -> forallb g l = true.
Proof. intros H. rewrite !forallb_forall. auto. Qed.

Lemma print10_hex v : forallb is_hex (print_uint 10 v) = true.
Proof.
  apply (forallb_impl is_dec); [|apply print10_dec].
  intros c H. unfold is_hex. now rewrite H.
Qed.

Lemma print16_hex v : forallb is_hex (print_uint 16 v) = true.
Proof. apply (forallb_impl is_lhex); [apply is_lhex_hex | apply print16_lhex]. Qed.

(** the head of the separator is not a hex digit (enough for AS text) *)
Definition head_ok (sep : str) : Prop := exists h p, sep = h :: p /\ is_hex h = false.

Lemma sep_ok_head sep : sep_ok sep = true -> head_ok sep.
Proof.
  unfold sep_ok. destruct sep as [|h p]; [discriminate|]. cbn [is_nil negb andb forallb].
  intros H. apply andb_true_iff in H. destruct H as [H _]. apply andb_true_iff in H. destruct H as [H _].
  exists h, p. split; [reflexivity|]. now apply negb_true_iff.
Qed.

Lemma sep_ok_nodash sep : sep_ok sep = true -> ~ In 45 sep.
Proof.
  unfold sep_ok. intros H. apply andb_true_iff in H. destruct H as [_ H].
  rewrite forallb_forall in H. intros Hin. apply H in Hin.
  apply andb_true_iff in Hin. destruct Hin as [_ Hin]. discriminate.
Qed.

Lemma colon_ok : sep_ok colon = true.
Proof. reflexivity. Qed.

Lemma pow16 : 2 ^ 16 = 65536. Proof. reflexivity. Qed.
Lemma pow32 : 2 ^ 32 = 4294967296. Proof. reflexivity. Qed.
Lemma pow48 : 2 ^ 48 = 281474976710656. Proof. reflexivity. Qed.
Lemma pow64 : 2 ^ 64 = 18446744073709551616. Proof. reflexivity. Qed.

(** ---------------------------------------------------------------- AS *)
Lemma parse_fmt_as sep a :
  head_ok sep -> a <= max_as -> parse_as sep (fmt_as sep a) = Some a.
Proof.
  intros (h & p & -> & Hh) Ha. unfold fmt_as, parse_as.
  replace (max_as <? a) with false by lia.
  destruct (a <=? max_bgp) eqn:Eb.
  - assert (Hsp : split (h :: p) (print_uint 10 a) = [print_uint 10 a]).
    { apply (split_join h p [print_uint 10 a]); [discriminate|].
      constructor; [apply not_in_hex; [assumption|apply print10_hex]|constructor]. }
    rewrite Hsp. apply parse_print_uint; [lia|]. rewrite pow32. unfold max_bgp in Eb. lia.
  - set (x := (a / 2 ^ 32) mod 2 ^ 16). set (y := (a / 2 ^ 16) mod 2 ^ 16). set (z := a mod 2 ^ 16).
    change (print_uint 16 x ++ (h :: p) ++ print_uint 16 y ++ (h :: p) ++ print_uint 16 z)
      with (join (h :: p) [print_uint 16 x; print_uint 16 y; print_uint 16 z]).
    rewrite split_join;
      [|discriminate|repeat constructor; (apply not_in_hex; [assumption|apply print16_hex])].
    assert (Hx : x < 2 ^ 16) by (apply N.mod_lt; discriminate).
    assert (Hy : y < 2 ^ 16) by (apply N.mod_lt; discriminate).
    assert (Hz : z < 2 ^ 16) by (apply N.mod_lt; discriminate).
    rewrite !parse_print_uint by (assumption || lia).
    assert (E : (x * 2 ^ 16 + y) * 2 ^ 16 + z = a).
    { subst x y z. rewrite pow16, pow32. unfold max_as in Ha. lia. }
    rewrite E. now replace (a <=? max_as) with true by lia.
Qed.

Lemma parse_uint_lt b bits s v : parse_uint b bits s = Some v -> v < 2 ^ bits.
Proof.
  unfold parse_uint. destruct s; [discriminate|]. destruct (digits_val b (n :: s) 0); [|discriminate].
  destruct (n0 <? 2 ^ bits) eqn:E; [|discriminate]. intros [= <-]. lia.
Qed.

Lemma num_ok_weaken b m m' s v : m <= m' -> num_ok b m s v = true -> num_ok b m' s v = true.
Proof.
  unfold num_ok. intros Hm H. apply andb_true_iff in H. destruct H as [H1 H2].
  rewrite H1. cbn [andb]. lia.
Qed.

Lemma parse_as_ok sep s v : parse_as sep s = Some v -> as_ok sep s v = true.
Proof.
  unfold parse_as, as_ok.
  destruct (split sep s) as [|a [|b [|c [|d l]]]]; try discriminate.
  - intros H. apply parse_uint_num_ok in H; [|now left]. exact H.
  - destruct (parse_uint 16 16 a) as [x|] eqn:Ex; [|discriminate].
    destruct (parse_uint 16 16 b) as [y|] eqn:Ey; [|discriminate].
    destruct (parse_uint 16 16 c) as [z|] eqn:Ez; [|discriminate].
    destruct ((x * 2 ^ 16 + y) * 2 ^ 16 + z <=? max_as) eqn:Em; [|discriminate]. intros [= <-].
    pose proof (parse_uint_lt _ _ _ _ Ex) as Hx. pose proof (parse_uint_lt _ _ _ _ Ey) as Hy.
    pose proof (parse_uint_lt _ _ _ _ Ez) as Hz.
    apply parse_uint_num_ok in Ex; [|now right]. apply parse_uint_num_ok in Ey; [|now right].
    apply parse_uint_num_ok in Ez; [|now right].
    rewrite pow16, pow32 in *. change (N.pos (Pos.pow 2 16)) with 65536.
    replace (((x * 65536 + y) * 65536 + z) / 4294967296) with x by lia.
    replace ((((x * 65536 + y) * 65536 + z) / 65536) mod 65536) with y by lia.
    replace (((x * 65536 + y) * 65536 + z) mod 65536) with z by lia.
    change (65536 - 1) with 65535 in *. now rewrite Ex, Ey, Ez.
Qed.

Lemma as_ok_inj sep s v w : as_ok sep s v = true -> as_ok sep s w = true -> v = w.
Proof.
  unfold as_ok. destruct (split sep s) as [|a [|b [|c [|d l]]]]; try discriminate.
  - apply num_ok_inj. now left.
  - intros H1 H2.
    apply andb_true_iff in H1. destruct H1 as [H1 H1c]. apply andb_true_iff in H1. destruct H1 as [H1a H1b].
    apply andb_true_iff in H2. destruct H2 as [H2 H2c]. apply andb_true_iff in H2. destruct H2 as [H2a H2b].
    pose proof (num_ok_inj 16 _ _ _ _ (or_intror eq_refl) H1a H2a) as Ea.
    pose proof (num_ok_inj 16 _ _ _ _ (or_intror eq_refl) H1b H2b) as Eb.
    pose proof (num_ok_inj 16 _ _ _ _ (or_intror eq_refl) H1c H2c) as Ec.
    rewrite pow16, pow32 in *. lia.
Qed.

Lemma as_ok_range sep s v : as_ok sep s v = true -> v <= max_as.
Proof.
  unfold as_ok. destruct (split sep s) as [|a [|b [|c [|d l]]]]; try discriminate.
  - unfold num_ok. intros H. apply andb_true_iff in H. destruct H as [_ H]. unfold max_bgp, max_as in *. lia.
  - intros H. apply andb_true_iff in H. destruct H as [H Hc]. apply andb_true_iff in H. destruct H as [Ha Hb].
    unfold num_ok in Ha. apply andb_true_iff in Ha. destruct Ha as [_ Ha].
    rewrite pow32 in Ha. unfold max_as. lia.
Qed.

(** structure of accepted AS text, in words: decimal digits, or three hex groups *)
Lemma as_ok_shape sep s v : sep <> [] -> as_ok sep s v = true ->
  (num_ok 10 max_bgp s v = true) \/
  (exists a b c, s = a ++ sep ++ b ++ sep ++ c /\
     num_ok 16 65535 a (v / 2 ^ 32) = true /\ num_ok 16 65535 b ((v / 2 ^ 16) mod 2 ^ 16) = true /\
     num_ok 16 65535 c (v mod 2 ^ 16) = true).
Proof.
  intros Hs. unfold as_ok. destruct (split sep s) as [|a [|b [|c [|d l]]]] eqn:E; try discriminate.
  - now left.
  - intros H. right. exists a, b, c. split; [now apply split_three|].
    apply andb_true_iff in H. destruct H as [H Hc]. apply andb_true_iff in H. destruct H as [Ha Hb]. auto.
Qed.

(** decimal iff the AS fits in 32 bits *)
Lemma fmt_as_dec_iff sep a : head_ok sep -> a <= max_as ->
  forallb is_dec (fmt_as sep a) = (a <=? max_bgp).
Proof.
  intros (h & p & -> & Hh) Ha. unfold fmt_as. replace (max_as <? a) with false by lia.
  destruct (a <=? max_bgp); [apply print10_dec|].
  rewrite forallb_app. cbn [app forallb].
  replace (is_dec h) with false; [now rewrite andb_false_r|].
  symmetry. unfold is_hex in Hh. apply orb_false_iff in Hh. destruct Hh as [Hh _].
  apply orb_false_iff in Hh. tauto.
Qed.

(** characters of formatted AS text *)
Lemma fmt_as_chars sep a c : a <= max_as -> In c (fmt_as sep a) -> is_hex c = true \/ In c sep.
Proof.
  intros Ha. unfold fmt_as. replace (max_as <? a) with false by lia.
  pose proof print10_hex as H10. pose proof print16_hex as H16.
  destruct (a <=? max_bgp).
  - intros Hin. left. specialize (H10 a). rewrite forallb_forall in H10. auto.
  - intros Hin. repeat (apply in_app_or in Hin; destruct Hin as [Hin|Hin]);
      try (left; match goal with H : In c (print_uint 16 ?v) |- _ =>
             specialize (H16 v); rewrite forallb_forall in H16; auto end); now right.
Qed.

(** ---------------------------------------------------------------- ISD *)
Lemma parse_fmt_isd v : v <= max_isd -> parse_isd (fmt_isd v) = Some v.
Proof. intros H. apply parse_print_uint; [lia|]. rewrite pow16. unfold max_isd in H. lia. Qed.

Lemma parse_isd_ok s v : parse_isd s = Some v -> isd_ok s v = true.
Proof. intros H. apply parse_uint_num_ok in H; [|now left]. exact H. Qed.

(** ---------------------------------------------------------------- options *)
Lemma apply_opts_sep_nonempty l : o_sep (apply_opts l) <> [].
Proof.
  unfold apply_opts.
  assert (H : forall o, o_sep o <> [] -> o_sep (fold_left apply_opt l o) <> []).
  { induction l as [|f l IH]; intros o Ho; [exact Ho|]. cbn [fold_left]. apply IH.
    destruct f as [|s]; cbn [apply_opt o_sep]; [exact Ho|]. destruct s; [discriminate|discriminate]. }
  apply H. discriminate.
Qed.

(** the documented fallback: an empty separator means ':' *)
Lemma apply_opts_empty_sep l :
  o_sep (apply_opts (l ++ [WithSeparator []])) = colon.
Proof. unfold apply_opts. rewrite fold_left_app. reflexivity. Qed.

Lemma apply_opts_last_sep l s : s <> [] -> o_sep (apply_opts (l ++ [WithSeparator s])) = s.
Proof. intros H. unfold apply_opts. rewrite fold_left_app. cbn. destruct s; [congruence|reflexivity]. Qed.

(** ---------------------------------------------------------------- ISD-AS *)
Lemma split_dash_two x y : ~ In 45 x -> ~ In 45 y -> split dash (x ++ dash ++ y) = [x; y].
Proof.
  intros Hx Hy. apply (split_join 45 [] [x; y]); [discriminate|]. repeat constructor; assumption.
Qed.

Lemma dash_not_hex : is_hex 45 = false. Proof. reflexivity. Qed.

Lemma no_dash_dec v : ~ In 45 (print_uint 10 v).
Proof. apply not_in_hex; [reflexivity | apply print10_hex]. Qed.

Lemma no_dash_fmt_as sep a : a <= max_as -> ~ In 45 sep -> ~ In 45 (fmt_as sep a).
Proof.
  intros Ha Hs Hin. apply fmt_as_chars in Hin; [|assumption]. destruct Hin as [H|H]; [discriminate|auto].
Qed.

Lemma ia_parts ia : ia < 2 ^ 64 -> ia_from (ia_isd ia) (ia_as ia) = ia.
Proof. unfold ia_from, ia_isd, ia_as. rewrite pow64, pow48, pow16. lia. Qed.

Lemma ia_isd_range ia : ia_isd ia <= max_isd.
Proof. unfold ia_isd, max_isd. rewrite pow16. assert (H : (ia / 2 ^ 48) mod 65536 < 65536) by (apply N.mod_lt; discriminate). lia. Qed.

Lemma ia_as_range ia : ia_as ia <= max_as.
Proof. unfold ia_as, max_as. rewrite pow48. assert (H : ia mod 281474976710656 < 281474976710656) by (apply N.mod_lt; discriminate). lia. Qed.

Lemma no_dash_prefix (b : bool) (p : str) : ~ In 45 p -> ~ In 45 (if b then p else []).
Proof. destruct b; [auto|intros _ []]. Qed.

Lemma no_dash_isd_prefix : ~ In 45 isd_prefix.
Proof. cbn. intuition discriminate. Qed.
Lemma no_dash_as_prefix : ~ In 45 as_prefix.
Proof. cbn. intuition discriminate. Qed.

Lemma parse_format_isd l v : v <= max_isd -> parse_formatted_isd l (format_isd l v) = Some v.
Proof.
  intros Hv. unfold parse_formatted_isd, format_isd. destruct (o_prefix (apply_opts l)).
  - rewrite trim_prefix_app. now apply parse_fmt_isd.
  - now apply parse_fmt_isd.
Qed.

Lemma parse_format_as l a : a <= max_as -> head_ok (o_sep (apply_opts l)) ->
  parse_formatted_as l (format_as l a) = Some a.
Proof.
  intros Ha Hs. unfold parse_formatted_as, format_as. destruct (o_prefix (apply_opts l)).
  - rewrite trim_prefix_app. now apply parse_fmt_as.
  - now apply parse_fmt_as.
Qed.

Lemma parse_format_ia l ia : ia < 2 ^ 64 -> sep_ok (o_sep (apply_opts l)) = true ->
  parse_formatted_ia l (format_ia l ia) = Some ia.
Proof.
  intros Hia Hs. unfold parse_formatted_ia.
  assert (E : format_ia l ia = format_isd l (ia_isd ia) ++ dash ++ format_as l (ia_as ia)).
  { unfold format_ia, format_isd, format_as. now rewrite <- !app_assoc. }
  rewrite E, split_dash_two.
  - rewrite parse_format_isd by apply ia_isd_range.
    rewrite parse_format_as by (try apply ia_as_range; now apply sep_ok_head).
    f_equal. now apply ia_parts.
  - unfold format_isd. intros Hin. apply in_app_or in Hin. destruct Hin as [Hin|Hin].
    + revert Hin. apply no_dash_prefix, no_dash_isd_prefix.
    + revert Hin. apply no_dash_dec.
  - unfold format_as. intros Hin. apply in_app_or in Hin. destruct Hin as [Hin|Hin].
    + revert Hin. apply no_dash_prefix, no_dash_as_prefix.
    + revert Hin. apply no_dash_fmt_as; [apply ia_as_range | now apply sep_ok_nodash].
Qed.

Lemma parse_ia_eq s : parse_ia s = parse_formatted_ia [] s.
Proof. reflexivity. Qed.

Lemma fmt_ia_eq ia : fmt_ia ia = format_ia [] ia.
Proof. reflexivity. Qed.

Lemma parse_fmt_ia ia : ia < 2 ^ 64 -> parse_ia (fmt_ia ia) = Some ia.
Proof. intros H. rewrite parse_ia_eq, fmt_ia_eq. now apply parse_format_ia. Qed.

Lemma trim_prefix_nil s : trim_prefix [] s = Some s.
Proof. reflexivity. Qed.

Lemma parse_formatted_isd_ok l s v : parse_formatted_isd l s = Some v ->
  match trim_prefix (if o_prefix (apply_opts l) then isd_prefix else []) s with
  | Some t => isd_ok t v | None => false end = true.
Proof.
  unfold parse_formatted_isd. destruct (o_prefix (apply_opts l)).
  - destruct (trim_prefix isd_prefix s); [apply parse_isd_ok|discriminate].
  - rewrite trim_prefix_nil. apply parse_isd_ok.
Qed.

Lemma parse_formatted_as_ok l s v : parse_formatted_as l s = Some v ->
  match trim_prefix (if o_prefix (apply_opts l) then as_prefix else []) s with
  | Some t => as_ok (o_sep (apply_opts l)) t v | None => false end = true.
Proof.
  unfold parse_formatted_as. destruct (o_prefix (apply_opts l)).
  - destruct (trim_prefix as_prefix s); [apply parse_as_ok|discriminate].
  - rewrite trim_prefix_nil. apply parse_as_ok.
Qed.

Lemma parse_formatted_ia_ok l s ia : parse_formatted_ia l s = Some ia ->
  ia_ok_with (if o_prefix (apply_opts l) then isd_prefix else [])
             (if o_prefix (apply_opts l) then as_prefix else []) (o_sep (apply_opts l)) s ia = true.
Proof.
  unfold parse_formatted_ia, ia_ok_with.
  destruct (split dash s) as [|a [|b [|c r]]]; try discriminate.
  destruct (parse_formatted_isd l a) as [isd|] eqn:Ei; [|discriminate].
  destruct (parse_formatted_as l b) as [v|] eqn:Ea; [|discriminate]. intros [= <-].
  apply parse_formatted_isd_ok in Ei. apply parse_formatted_as_ok in Ea.
  destruct (trim_prefix _ a) as [a'|]; [|discriminate].
  destruct (trim_prefix _ b) as [b'|]; [|discriminate].
  pose proof (as_ok_range _ _ _ Ea) as Hr. unfold ia_from. unfold max_as in Hr. rewrite pow48.
  replace ((isd * 281474976710656 + v) / 281474976710656) with isd by lia.
  replace ((isd * 281474976710656 + v) mod 281474976710656) with v by lia.
  now rewrite Ei, Ea.
Qed.

Lemma ia_ok_with_inj ip ap sep s v w :
  ia_ok_with ip ap sep s v = true -> ia_ok_with ip ap sep s w = true -> v = w.
Proof.
  unfold ia_ok_with. destruct (split dash s) as [|a [|b [|c r]]]; try discriminate.
  destruct (trim_prefix ip a) as [a'|]; [|discriminate].
  destruct (trim_prefix ap b) as [b'|]; [|discriminate].
  intros H1 H2. apply andb_true_iff in H1. destruct H1 as [H1a H1b].
  apply andb_true_iff in H2. destruct H2 as [H2a H2b].
  pose proof (num_ok_inj 10 _ _ _ _ (or_introl eq_refl) H1a H2a) as Ea.
  pose proof (as_ok_inj _ _ _ _ H1b H2b) as Eb.
  rewrite pow48 in *. lia.
Qed.

(** ---------------------------------------------------------------- SVC *)
Lemma svc_known_cases v : svc_known v = true ->
  v = 1 \/ v = 2 \/ v = 16 \/ v = 32769 \/ v = 32770 \/ v = 32784.
Proof. unfold svc_known, svc_base, svc_ds, svc_cs, svc_wildcard. lia. Qed.

Lemma parse_svc_string v : svc_known v = true -> parse_svc (svc_string v) = Some v.
Proof.
  intros H. apply svc_known_cases in H.
  destruct H as [->|[->|[->|[->|[->| ->]]]]]; reflexivity.
Qed.

Lemma suffix_split suf s : has_suffix suf s = true -> s = trim_suffix suf s ++ suf.
Proof.
  unfold has_suffix, trim_suffix. intros H. apply is_prefix_true in H.
  rewrite rev_length in H. rewrite <- (rev_involutive s) at 1. rewrite H at 1.
  now rewrite rev_app_distr, rev_involutive.
Qed.

Lemma parse_svc_ok s v : parse_svc s = Some v -> svc_ok s v = true.
Proof.
  unfold parse_svc.
  destruct (has_suffix s_A s) eqn:EA; [|destruct (has_suffix s_M s) eqn:EM].
  - apply suffix_split in EA. set (t := trim_suffix s_A s) in *.
    destruct (str_eqb t s_DS) eqn:E1; [apply str_eqb_eq in E1; rewrite EA, E1; now intros [= <-]|].
    destruct (str_eqb t s_CS) eqn:E2; [apply str_eqb_eq in E2; rewrite EA, E2; now intros [= <-]|].
    destruct (str_eqb t s_Wildcard) eqn:E3; [apply str_eqb_eq in E3; rewrite EA, E3; now intros [= <-]|].
    discriminate.
  - apply suffix_split in EM. set (t := trim_suffix s_M s) in *.
    destruct (str_eqb t s_DS) eqn:E1; [apply str_eqb_eq in E1; rewrite EM, E1; now intros [= <-]|].
    destruct (str_eqb t s_CS) eqn:E2; [apply str_eqb_eq in E2; rewrite EM, E2; now intros [= <-]|].
    destruct (str_eqb t s_Wildcard) eqn:E3; [apply str_eqb_eq in E3; rewrite EM, E3; now intros [= <-]|].
    discriminate.
  - destruct (str_eqb s s_DS) eqn:E1; [apply str_eqb_eq in E1; rewrite E1; now intros [= <-]|].
    destruct (str_eqb s s_CS) eqn:E2; [apply str_eqb_eq in E2; rewrite E2; now intros [= <-]|].
    destruct (str_eqb s s_Wildcard) eqn:E3; [apply str_eqb_eq in E3; rewrite E3; now intros [= <-]|].
    discriminate.
Qed.

Lemma svc_ok_parse s v : svc_ok s v = true -> parse_svc s = Some v.
Proof.
  unfold svc_ok. intros H. apply andb_true_iff in H. destruct H as [K H].
  apply svc_known_cases in K. apply orb_true_iff in H.
  destruct K as [->|[->|[->|[->|[->| ->]]]]]; destruct H as [H|H];
    try (apply str_eqb_eq in H; subst s; reflexivity);
    apply andb_true_iff in H; destruct H as [Hm He];
    try (vm_compute in Hm; discriminate Hm);
    apply str_eqb_eq in He; subst s; reflexivity.
Qed.

Lemma svc_ok_inj s v w : svc_ok s v = true -> svc_ok s w = true -> v = w.
Proof. intros H1 H2. apply svc_ok_parse in H1. apply svc_ok_parse in H2. congruence. Qed.

(** ---------------------------------------------------------------- the seven codecs, uniformly *)
Lemma roundtrip_k k l v : in_domain k l v = true -> parse_k k l (fmt_k k l v) = Some v.
Proof.
  destruct k; cbn [in_domain parse_k fmt_k]; intros H.
  - apply parse_fmt_isd. lia.
  - apply parse_fmt_as; [apply sep_ok_head, colon_ok | lia].
  - apply parse_fmt_ia. lia.
  - apply parse_format_isd. lia.
  - apply andb_true_iff in H. destruct H as [H1 H2]. apply parse_format_as; [lia | now apply sep_ok_head].
  - apply andb_true_iff in H. destruct H as [H1 H2]. apply parse_format_ia; [lia | assumption].
  - now apply parse_svc_string.
Qed.

Lemma parse_k_ok k l s v : parse_k k l s = Some v -> text_ok k l s v = true.
Proof.
  destruct k; cbn [parse_k text_ok]; intros H.
  - now apply parse_isd_ok.
  - now apply parse_as_ok.
  - rewrite parse_ia_eq in H. apply parse_formatted_ia_ok in H. exact H.
  - now apply parse_formatted_isd_ok.
  - now apply parse_formatted_as_ok.
  - now apply parse_formatted_ia_ok.
  - now apply parse_svc_ok.
Qed.

Lemma text_ok_inj k l s v w : text_ok k l s v = true -> text_ok k l s w = true -> v = w.
Proof.
  destruct k; cbn [text_ok].
  - apply num_ok_inj. now left.
  - apply as_ok_inj.
  - apply ia_ok_with_inj.
  - destruct (trim_prefix _ s); [|discriminate]. apply num_ok_inj. now left.
  - destruct (trim_prefix _ s); [|discriminate]. apply as_ok_inj.
  - apply ia_ok_with_inj.
  - apply svc_ok_inj.
Qed.

Lemma dec_iff_k k l v : in_domain k l v = true -> dec_iff_ok k l v (fmt_k k l v) = true.
Proof.
  destruct k; cbn [in_domain dec_iff_ok fmt_k]; intros H; try reflexivity.
  - rewrite fmt_as_dec_iff; [apply eqb_reflx | apply sep_ok_head, colon_ok | lia].
  - apply andb_true_iff in H. destruct H as [H1 H2]. unfold format_as. rewrite trim_prefix_app.
    rewrite fmt_as_dec_iff; [apply eqb_reflx | now apply sep_ok_head | lia].
Qed.

(** ---------------------------------------------------------------- host and full address *)
Lemma cut_comma_app x y : ~ In 44 x -> cut_comma (x ++ 44 :: y) = Some (x, y).
Proof.
  induction x as [|c x IH]; intros Hn; [reflexivity|].
  cbn [app cut_comma]. replace (c =? 44) with false
    by (symmetry; apply N.eqb_neq; intros ->; apply Hn; now left).
  rewrite IH; [reflexivity|]. intros Hi. apply Hn. now right.
Qed.

Lemma cut_comma_some s a b : cut_comma s = Some (a, b) -> s = a ++ 44 :: b /\ ~ In 44 a.
Proof.
  revert a. induction s as [|c s IH]; intros a H; [discriminate|].
  cbn [cut_comma] in H. destruct (c =? 44) eqn:E.
  - injection H as <- <-. apply N.eqb_eq in E. subst. split; [reflexivity|intros []].
  - destruct (cut_comma s) as [[a' b']|]; [|discriminate]. injection H as <- <-.
    destruct (IH a' eq_refl) as [-> Hn]. split; [reflexivity|].
    intros [Hc|Hi]; [apply N.eqb_neq in E; congruence|auto].
Qed.

Lemma no_comma_fmt_ia ia : ~ In 44 (fmt_ia ia).
Proof.
  unfold fmt_ia, fmt_isd. intros Hin. apply in_app_or in Hin. destruct Hin as [Hin|Hin].
  - revert Hin. apply not_in_hex; [reflexivity|apply print10_hex].
  - apply in_app_or in Hin. destruct Hin as [[Hin|[]]|Hin]; [discriminate|].
    apply fmt_as_chars in Hin; [|apply ia_as_range].
    destruct Hin as [Hin|[Hin|[]]]; discriminate.
Qed.

Section HostProofs.
Variable ip : Type.
Variable ip_print : ip -> str.
Variable ip_parse : str -> option ip.

Definition host_valid (h : host ip) : Prop :=
  match h with HNone => False | HIP _ => True | HSVC v => svc_known v = true end.

(** what the parser's answer says about the text *)
Definition host_spells (s : str) (h : host ip) : Prop :=
  match h with
  | HNone => False
  | HSVC v => svc_ok s v = true
  | HIP a => parse_svc s = None /\ ip_parse s = Some a
  end.

Lemma parse_host_sound s h : parse_host ip ip_parse s = Some h -> host_spells s h.
Proof.
  unfold parse_host. destruct (parse_svc s) as [v|] eqn:E.
  - intros [= <-]. now apply parse_svc_ok.
  - destruct (ip_parse s) as [a|] eqn:Ea; [|discriminate]. intros [= <-]. now split.
Qed.

Lemma parse_addr_sound s ia h : parse_addr ip ip_parse s = Some (ia, h) ->
  exists a b, s = a ++ [44] ++ b /\ ~ In 44 a /\ ia_ok a ia = true /\ host_spells b h.
Proof.
  unfold parse_addr. destruct (cut_comma s) as [[a b]|] eqn:Ec; [|discriminate].
  destruct (parse_ia a) as [ia'|] eqn:Ei; [|discriminate].
  destruct (parse_host ip ip_parse b) as [h'|] eqn:Eh; [|discriminate]. intros [= <- <-].
  apply cut_comma_some in Ec. destruct Ec as [-> Hn]. exists a, b. repeat split; try assumption.
  - rewrite parse_ia_eq in Ei. now apply parse_formatted_ia_ok in Ei.
  - now apply parse_host_sound.
Qed.

(** assumptions on the IP text codec (net/netip): printing then parsing is the
    identity, and no printed IP address is a service name *)
Hypothesis ip_rt : forall a, ip_parse (ip_print a) = Some a.
Hypothesis ip_not_svc : forall a, parse_svc (ip_print a) = None.

Lemma parse_host_string h : host_valid h ->
  parse_host ip ip_parse (host_string ip ip_print h) = Some h.
Proof.
  destruct h as [|a|v]; cbn [host_valid host_string]; intros H; [destruct H| |].
  - unfold parse_host. now rewrite ip_not_svc, ip_rt.
  - unfold parse_host. now rewrite parse_svc_string.
Qed.

Lemma parse_addr_string ia h : ia < 2 ^ 64 -> host_valid h ->
  parse_addr ip ip_parse (addr_string ip ip_print ia h) = Some (ia, h).
Proof.
  intros Hia Hh. unfold parse_addr, addr_string. cbn [app].
  rewrite cut_comma_app by apply no_comma_fmt_ia.
  now rewrite parse_fmt_ia, parse_host_string.
Qed.
End HostProofs.

(** ---------------------------------------------------------------- the oracle of [check] on the model *)
Lemma opt_N_eqb_refl o : opt_N_eqb o o = true.
Proof. destruct o; cbn; [apply N.eqb_refl|reflexivity]. Qed.

Lemma hostv_eqb_refl h : hostv_eqb h h = true.
Proof. destruct h; cbn; [reflexivity|apply str_eqb_refl|apply N.eqb_refl]. Qed.

Lemma oracle_fmt k l v :
  (if in_domain k l v
   then opt_N_eqb (parse_k k l (fmt_k k l v)) (Some v) && dec_iff_ok k l v (fmt_k k l v)
   else true) = true.
Proof.
  destruct (in_domain k l v) eqn:E; [|reflexivity].
  rewrite roundtrip_k, dec_iff_k by assumption. cbn. now rewrite N.eqb_refl.
Qed.

Lemma oracle_parse k l s :
  match parse_k k l s with Some v => text_ok k l s v | None => true end = true.
Proof. destruct (parse_k k l s) eqn:E; [now apply parse_k_ok|reflexivity]. Qed.

Definition ip_of (h : hostv) : option str := match h with HIP a => Some a | _ => None end.

(** the text of an IP address in a case is not a service name *)
Definition ip_text_ok (h : hostv) : Prop := forall a, h = HIP a -> parse_svc a = None.

Lemma host_known_valid h : host_known h = true -> host_valid str h.
Proof. destruct h; cbn; [discriminate|trivial|trivial]. Qed.

Lemma parse_host_table h : ip_text_ok h -> host_known h = true ->
  parse_host str (ip_table (host_string str (fun a => a) h) (ip_of h)) (host_string str (fun a => a) h) = Some h.
Proof.
  intros Ht Hk. destruct h as [|a|v]; [discriminate| |].
  - cbn [host_string ip_of]. unfold parse_host. rewrite (Ht a eq_refl).
    unfold ip_table. now rewrite str_eqb_refl.
  - cbn [host_string]. unfold parse_host. now rewrite parse_svc_string.
Qed.

Lemma oracle_host_fmt h : ip_text_ok h ->
  let txt := host_string str (fun a => a) h in
  (if host_known h then option_eqb hostv_eqb (parse_host str (ip_table txt (ip_of h)) txt) (Some h)
   else true) = true.
Proof.
  intros Ht txt. destruct (host_known h) eqn:Hk; [|reflexivity].
  subst txt. rewrite parse_host_table by assumption. cbn. apply hostv_eqb_refl.
Qed.

Lemma host_ok_sound tbl s h : host_spells str tbl s h -> host_ok tbl s h = true.
Proof.
  destruct h as [|a|v]; cbn [host_spells host_ok]; [tauto| |trivial].
  intros [-> ->]. cbn. apply str_eqb_refl.
Qed.

Lemma oracle_host_parse tbl s :
  match parse_host str tbl s with Some h => host_ok tbl s h | None => true end = true.
Proof.
  destruct (parse_host str tbl s) as [h|] eqn:E; [|reflexivity].
  apply host_ok_sound. now apply parse_host_sound.
Qed.

Lemma oracle_addr_fmt ia h : ip_text_ok h ->
  let txt := addr_string str (fun a => a) ia h in
  let tbl := ip_table (host_string str (fun a => a) h) (ip_of h) in
  (if host_known h && (ia <? 2 ^ 64)
   then option_eqb addr_eqb (parse_addr str tbl txt) (Some (ia, h)) else true) = true.
Proof.
  intros Ht txt tbl. destruct (host_known h && (ia <? 2 ^ 64)) eqn:E; [|reflexivity].
  apply andb_true_iff in E. destruct E as [Hk Hia].
  subst txt tbl. unfold parse_addr, addr_string. cbn [app].
  rewrite cut_comma_app by apply no_comma_fmt_ia.
  rewrite parse_fmt_ia by lia. rewrite parse_host_table by assumption.
  cbn [option_eqb]. unfold addr_eqb. cbn [fst snd]. now rewrite N.eqb_refl, hostv_eqb_refl.
Qed.

Lemma oracle_addr_parse tbl s :
  match parse_addr str tbl s with
  | Some (ia, h) => match cut_comma s with
                    | Some (a, b) => ia_ok a ia && host_ok tbl b h
                    | None => false
                    end
  | None => true
  end = true.
Proof.
  unfold parse_addr. destruct (cut_comma s) as [[a b]|]; [|reflexivity].
  destruct (parse_ia a) as [ia|] eqn:Ei; [|reflexivity].
  destruct (parse_host str tbl b) as [h|] eqn:Eh; [|reflexivity].
  rewrite parse_ia_eq in Ei. apply parse_formatted_ia_ok in Ei.
  apply parse_host_sound, host_ok_sound in Eh.
  change (ia_ok a ia = true) in Ei. now rewrite Ei, Eh.
Qed.

(** ---------------------------------------------------------------- audit follow-up: every separator *)
Lemma sep_head_ok_head sep : sep_head_ok sep = true -> head_ok sep.
Proof.
  destruct sep as [|h p]; [discriminate|]. cbn [sep_head_ok]. intros H.
  exists h, p. split; [reflexivity|]. now apply negb_true_iff.
Qed.

Lemma no_dash_existsb sep : existsb (N.eqb 45) sep = false -> ~ In 45 sep.
Proof.
  intros H Hin. assert (existsb (N.eqb 45) sep = true); [|congruence].
  apply existsb_exists. exists 45. split; [assumption|apply N.eqb_refl].
Qed.

(** FormatIA round trip under exactly what its proof uses *)
Lemma parse_format_ia_weak l ia : ia < 2 ^ 64 ->
  head_ok (o_sep (apply_opts l)) -> ~ In 45 (o_sep (apply_opts l)) ->
  parse_formatted_ia l (format_ia l ia) = Some ia.
Proof.
  intros Hia Hh Hd. unfold parse_formatted_ia.
  assert (E : format_ia l ia = format_isd l (ia_isd ia) ++ dash ++ format_as l (ia_as ia)).
  { unfold format_ia, format_isd, format_as. now rewrite <- !app_assoc. }
  rewrite E, split_dash_two.
  - rewrite parse_format_isd by apply ia_isd_range.
    rewrite parse_format_as by (try apply ia_as_range; assumption).
    f_equal. now apply ia_parts.
  - unfold format_isd. intros Hin. apply in_app_or in Hin. destruct Hin as [Hin|Hin].
    + revert Hin. apply no_dash_prefix, no_dash_isd_prefix.
    + revert Hin. apply no_dash_dec.
  - unfold format_as. intros Hin. apply in_app_or in Hin. destruct Hin as [Hin|Hin].
    + revert Hin. apply no_dash_prefix, no_dash_as_prefix.
    + revert Hin. apply no_dash_fmt_as; [apply ia_as_range | assumption].
Qed.

Lemma roundtrip_k_weak k l v :
  in_range k v = true -> sep_good k l = true -> parse_k k l (fmt_k k l v) = Some v.
Proof.
  destruct k; cbn [in_range sep_good parse_k fmt_k]; intros H Hs.
  - apply parse_fmt_isd. lia.
  - apply parse_fmt_as; [apply sep_ok_head, colon_ok | lia].
  - apply parse_fmt_ia. lia.
  - apply parse_format_isd. lia.
  - apply parse_format_as; [lia | now apply sep_head_ok_head].
  - apply andb_true_iff in Hs. destruct Hs as [H1 H2]. apply negb_true_iff in H2.
    apply parse_format_ia_weak; [lia | now apply sep_head_ok_head | now apply no_dash_existsb].
  - now apply parse_svc_string.
Qed.

Lemma dec_iff_k_weak k l v :
  in_range k v = true -> sep_good k l = true -> dec_iff_ok k l v (fmt_k k l v) = true.
Proof.
  destruct k; cbn [in_range sep_good dec_iff_ok fmt_k]; intros H Hs; try reflexivity.
  - rewrite fmt_as_dec_iff; [apply eqb_reflx | apply sep_ok_head, colon_ok | lia].
  - unfold format_as. rewrite trim_prefix_app.
    rewrite fmt_as_dec_iff; [apply eqb_reflx | now apply sep_head_ok_head | lia].
Qed.

Lemma fmt_oracle_good k l v : sep_good k l = true ->
  fmt_oracle k l v (fmt_k k l v) (parse_k k l (fmt_k k l v)) = true.
Proof.
  intros Hs. unfold fmt_oracle. destruct (in_range k v) eqn:E; [|reflexivity].
  rewrite roundtrip_k_weak, Hs, dec_iff_k_weak by assumption. cbn. now rewrite N.eqb_refl.
Qed.

(** the old separator condition implies the new one *)
Lemma sep_ok_good k l : sep_ok (o_sep (apply_opts l)) = true -> sep_good k l = true.
Proof.
  intros H. pose proof (sep_ok_head _ H) as (h & p & E & Hh). pose proof (sep_ok_nodash _ H) as Hd.
  destruct k; cbn [sep_good]; try reflexivity; rewrite E in *; cbn [sep_head_ok]; rewrite Hh; cbn [negb andb];
    try reflexivity.
  apply negb_true_iff. apply not_true_iff_false. intros Hx. apply existsb_exists in Hx.
  destruct Hx as (x & Hin & Hx). apply N.eqb_eq in Hx. subst x. now apply Hd.
Qed.
