(** Lemmas about Model/GwRoute.v: longest-prefix routing, first matching class,
    the forwarder, Policy.Match as first-match, and the text round trip. *)
From Coq Require Import List Arith NArith ZArith Bool Lia ZifyN ZifyNat ZifyBool.
From Scion Require Import Lib.Check Model.PktCls Model.GwRoute.
Import ListNotations.
From Coq Require String.
Import String.StringSyntax.
Import GwRoute.
Local Open Scope N_scope.



(** ------------------------------------------------------------------
    Prefixes. *)
Lemma pfx_eqb_eq a b : pfx_eqb a b = true <-> a = b.
Proof.
  unfold pfx_eqb. destruct a as [v1 a1 l1], b as [v2 a2 l2]. cbn [pf_v6 pf_addr pf_len].
  rewrite !andb_true_iff, !N.eqb_eq, Bool.eqb_true_iff. split.
  - intros [[-> ->] ->]. reflexivity.
  - intros H. inversion H. auto.
Qed.

(** two prefixes of the same length that contain the same address are the same set *)
Lemma same_len_same_canon p q a :
  in_prefix p a = true -> in_prefix q a = true -> pf_len p = pf_len q -> canon p = canon q.
Proof.
  unfold in_prefix, canon. intros Hp Hq Hl.
  apply andb_true_iff in Hp as [Vp Ep]. apply andb_true_iff in Hq as [Vq Eq].
  apply Bool.eqb_prop in Vp, Vq. apply N.eqb_eq in Ep, Eq.
  assert (V : pf_v6 p = pf_v6 q) by congruence.
  rewrite V, Hl in *. rewrite <- Ep, <- Eq. reflexivity.
Qed.

(** membership as an interval *)
Lemma in_prefix_interval p v a :
  pf_v6 p = v ->
  let size := 2 ^ (abits v - pf_len p) in let base := pf_addr p / size * size in
  in_prefix p (v, a) = true <-> base <= a < base + size.
Proof.
  intros Hv size base. unfold in_prefix. cbn [fst snd]. rewrite Hv, Bool.eqb_reflx. cbn [andb].
  fold size. rewrite N.eqb_eq.
  assert (Hs : size <> 0) by (apply N.pow_nonzero; lia).
  unfold base. split.
  - intros E. rewrite <- E.
    pose proof (N.mul_div_le a size Hs). pose proof (N.mul_succ_div_gt a size Hs). lia.
  - intros [H1 H2]. symmetry. apply N.div_unique with (r := a - pf_addr p / size * size); lia.
Qed.

(** ------------------------------------------------------------------
    First matching class. *)
(* cls_matches, cls_session: Model/GwRoute.v *)

Lemma ids_route_first cs ids pkt :
  ids_route cs ids pkt = match find (cls_matches cs pkt) ids with
                         | Some id => cls_session cs id
                         | None => None end.
Proof.
  induction ids as [|id r IH]; [reflexivity|]. cbn [ids_route find]. unfold cls_matches at 1, cls_session.
  destruct (find_cls cs id) as [c|] eqn:E.
  - destruct (PktCls.eval (c_cond c) pkt); [rewrite E; reflexivity|exact IH].
  - exact IH.
Qed.

(** ------------------------------------------------------------------
    Longest prefix. *)
Definition contains (dst : ipaddr) (e : entry) : bool := in_prefix (e_pfx e) dst.
Definition elen (e : entry) : N := pf_len (e_pfx e).

(** no two entries that contain [dst] have the same length *)
Fixpoint ulen (dst : ipaddr) (l : list entry) : Prop :=
  match l with
  | [] => True
  | e :: r => (contains dst e = true ->
               forall e', In e' r -> contains dst e' = true -> elen e' <> elen e) /\ ulen dst r
  end.

Lemma existsb_pfx_false x l :
  existsb (pfx_eqb x) l = false -> forall y, In y l -> y <> x.
Proof.
  intros H y Hy E. subst y. assert (existsb (pfx_eqb x) l = true); [|congruence].
  apply existsb_exists. exists x. split; [assumption|]. now apply pfx_eqb_eq.
Qed.

Lemma distinct_ulen es dst :
  nodupb pfx_eqb (List.map (fun e => canon (e_pfx e)) es) = true -> ulen dst es.
Proof.
  induction es as [|e r IH]; [intros; exact I|]. cbn [List.map nodupb ulen]. intros H.
  apply andb_true_iff in H as [H1 H2]. apply negb_true_iff in H1. split; [|now apply IH].
  intros Ce e' Hin Ce' El.
  apply (existsb_pfx_false _ _ H1 (canon (e_pfx e'))).
  - apply in_map_iff. exists e'. split; [reflexivity|assumption].
  - apply (same_len_same_canon _ _ dst); assumption.
Qed.

Definition out_of (cs : list cls) (pkt : PktCls.layer) (b : option entry) : option N :=
  match b with Some e => entry_route cs e pkt | None => None end.

Lemma route_scan_spec cs pkt dst : forall es h ret best,
  ulen dst es ->
  (forall b, best = Some b -> forall e', In e' es -> contains dst e' = true -> elen e' <> elen b) ->
  match best with Some b => h = elen b | None => h = 0 end ->
  ret = out_of cs pkt best ->
  route_scan cs es dst pkt h ret = out_of cs pkt (best_entry es dst best).
Proof.
  induction es as [|e r IH]; intros h ret best U Hb Hh Hr; [exact Hr|].
  cbn [route_scan best_entry]. fold (contains dst e). fold (elen e).
  destruct U as [Ue Ur].
  destruct (contains dst e) eqn:Ce; cbn [negb].
  - destruct best as [b|].
    + subst h. fold (elen b).
      assert (Hne : elen e <> elen b) by (apply (Hb b eq_refl e); [now left|exact Ce]).
      destruct (N.ltb_spec (elen e) (elen b)) as [L|L].
      * replace (elen b <? elen e) with false by lia.
        apply IH; try assumption; try reflexivity.
        intros b0 E e' Hin. apply (Hb b0 E e'). now right.
      * replace (elen b <? elen e) with true by lia.
        apply IH; try assumption; try reflexivity.
        intros b0 E e' Hin Ce'. inversion E; subst b0. now apply Ue.
    + subst h. replace (elen e <? 0) with false by lia.
      apply IH; try assumption; try reflexivity.
      intros b0 E e' Hin Ce'. inversion E; subst b0. now apply Ue.
  - apply IH; try assumption. intros b0 E e' Hin. apply (Hb b0 E e'). now right.
Qed.

Lemma route_spec t dst pkt : distinct_prefixes t = true -> route t dst pkt = spec_route t dst pkt.
Proof.
  intros D. unfold route, spec_route.
  rewrite (route_scan_spec (t_classes t) pkt dst (t_entries t) 0 None None);
    [reflexivity|now apply distinct_ulen|discriminate|reflexivity|reflexivity].
Qed.

(** what [best_entry] returns *)
Lemma best_entry_prop dst : forall es best m,
  (forall b, best = Some b -> contains dst b = true) ->
  best_entry es dst best = Some m ->
  contains dst m = true /\ (In m es \/ best = Some m) /\
  (forall e, In e es -> contains dst e = true -> elen e <= elen m) /\
  (forall b, best = Some b -> elen b <= elen m).
Proof.
  induction es as [|e r IH]; intros best m Hb H.
  - cbn [best_entry] in H. subst best. repeat split; auto.
    + intros e [].
    + intros b E. inversion E. lia.
  - cbn [best_entry] in H. fold (contains dst e) in H. destruct (contains dst e) eqn:Ce.
    + destruct best as [b|].
      * fold (elen b) (elen e) in H. destruct (N.ltb_spec (elen b) (elen e)) as [L|L].
        -- destruct (IH (Some e) m) as (C & I & M & B); [intros b0 E; inversion E; now subst|exact H|].
           repeat split; [exact C| |intros e' [<-|Hin] Ce'; [apply B; reflexivity|now apply M]|].
           ++ destruct I as [I|I]; [left; now right|inversion I; left; now left].
           ++ intros b0 E. inversion E; subst b0. specialize (B e eq_refl). lia.
        -- destruct (IH (Some b) m Hb H) as (C & I & M & B).
           repeat split; [exact C| |intros e' [<-|Hin] Ce'; [specialize (B b eq_refl); lia|now apply M]|exact B].
           destruct I as [I|I]; [left; now right|now right].
      * destruct (IH (Some e) m) as (C & I & M & B); [intros b0 E; inversion E; now subst|exact H|].
        repeat split; [exact C| |intros e' [<-|Hin] Ce'; [apply B; reflexivity|now apply M]|discriminate].
        destruct I as [I|I]; [left; now right|inversion I; left; now left].
    + destruct (IH best m Hb H) as (C & I & M & B).
      repeat split; [exact C| |intros e' [<-|Hin] Ce'; [congruence|now apply M]|exact B].
      destruct I as [I|I]; [left; now right|now right].
Qed.

Lemma best_entry_none dst : forall es best,
  best_entry es dst best = None -> best = None /\ forall e, In e es -> contains dst e = false.
Proof.
  induction es as [|e r IH]; intros best H.
  - cbn in H. split; [exact H|intros e []].
  - cbn [best_entry] in H. fold (contains dst e) in H. destruct (contains dst e) eqn:Ce.
    + destruct best as [b|].
      * destruct (pf_len (e_pfx b) <? pf_len (e_pfx e)); apply IH in H as [H _]; discriminate.
      * apply IH in H as [H _]. discriminate.
    + destruct (IH best H) as [B N]. split; [exact B|]. intros e' [<-|Hin]; [exact Ce|now apply N].
Qed.

Lemma best_entry_some dst : forall es best e,
  In e es -> contains dst e = true -> best_entry es dst best <> None.
Proof.
  intros es best e Hin Ce H. apply best_entry_none in H as [_ N]. rewrite (N e Hin) in Ce. discriminate.
Qed.

Lemma ulen_unique dst : forall l e m,
  ulen dst l -> In e l -> In m l -> contains dst e = true -> contains dst m = true ->
  elen e = elen m -> e = m.
Proof.
  induction l as [|x r IH]; intros e m U He Hm Ce Cm El; [destruct He|].
  destruct U as [Ux Ur]. destruct He as [<-|He], Hm as [<-|Hm].
  - reflexivity.
  - exfalso. apply (Ux Ce m Hm Cm). congruence.
  - exfalso. apply (Ux Cm e He Ce). congruence.
  - now apply IH.
Qed.

(** the unique longest containing prefix decides *)
Lemma route_lpm t dst pkt e :
  distinct_prefixes t = true -> In e (t_entries t) -> contains dst e = true ->
  (forall e', In e' (t_entries t) -> contains dst e' = true -> elen e' <= elen e) ->
  route t dst pkt = entry_route (t_classes t) e pkt.
Proof.
  intros D Hin Ce Hmax. rewrite (route_spec t dst pkt D). unfold spec_route.
  destruct (best_entry (t_entries t) dst None) as [m|] eqn:B.
  - destruct (best_entry_prop dst _ None m ltac:(discriminate) B) as (Cm & [Im|Im] & M & _); [|discriminate].
    replace m with e; [reflexivity|].
    apply (ulen_unique dst (t_entries t)); try assumption; [now apply distinct_ulen|].
    specialize (M e Hin Ce). specialize (Hmax m Im Cm). lia.
  - exfalso. now apply (best_entry_some dst (t_entries t) None e Hin Ce).
Qed.

Lemma route_none_outside t dst pkt :
  (forall e, In e (t_entries t) -> contains dst e = false) -> route t dst pkt = None.
Proof.
  intros H. unfold route. generalize (0 : N). induction (t_entries t) as [|e r IH]; intros h; [reflexivity|].
  cbn [route_scan]. fold (contains dst e). rewrite (H e (or_introl eq_refl)). cbn [negb].
  apply IH. intros e' Hin. apply H. now right.
Qed.

(** ------------------------------------------------------------------
    Forwarder. *)
Lemma route_pkt_spec t k : distinct_prefixes t = true -> route_pkt t k = spec_route_pkt t k.
Proof. intros D. destruct k; cbn [route_pkt spec_route_pkt]; now apply route_spec. Qed.

Lemma forward_spec t r : distinct_prefixes t = true -> forward t r = spec_forward t r.
Proof.
  intros D. unfold forward, spec_forward. destruct (r_len r =? 0); [reflexivity|].
  destruct (r_b0 r / 16) as [|p]; [reflexivity|].
  destruct (r_dec r) as [|q ok|d ok]; try reflexivity.
  - destruct p as [[[|[]|]|[[]|[]|]|]|[[|[]|]|[[]|[]|]|]|]; try reflexivity;
      destruct (PktCls.p_frag q); try reflexivity; now apply route_pkt_spec.
  - destruct p as [[[|[]|]|[[]|[]|]|]|[[|[]|]|[[]|[]|]|]|]; try reflexivity; now apply route_pkt_spec.
Qed.

(** ------------------------------------------------------------------
    Policy: the fold over the rules is first-match. *)
Lemma fold_first from to s0 : forall rules a,
  fold_right (match_step from to) s0 rules a =
  match first_decision rules from to a with Some d => d | None => s0 a end.
Proof.
  induction rules as [|r rs IH]; intros a; [reflexivity|].
  cbn [fold_right first_decision]. unfold match_step at 1.
  destruct (ia_match (r_from r) from); cbn [negb orb andb]; [|apply IH].
  destruct (ia_match (r_to r) to); cbn [negb orb andb]; [|apply IH].
  destruct (r_action r); try (destruct (net_set (r_net r) a); apply IH).
  - rewrite IH. destruct (net_set (r_net r) a); [apply orb_true_r|apply orb_false_r].
  - rewrite IH. destruct (net_set (r_net r) a); cbn [negb]; [apply andb_false_r|apply andb_true_r].
Qed.

Lemma match_set_spec p from to pref a : match_set p from to pref a = spec_match p from to pref a.
Proof. unfold match_set, spec_match. rewrite fold_first. apply andb_comm. Qed.



(** ------------------------------------------------------------------
    Text: fields, lines, trimming. *)
Definition nospace (w : list N) : bool := forallb (fun c => negb (is_space c)) w.

Lemma fields_aux_word : forall w cur r,
  nospace w = true -> fields_aux (w ++ r) cur = fields_aux r (rev w ++ cur).
Proof.
  induction w as [|c w IH]; intros cur r H; [reflexivity|].
  cbn [nospace forallb] in H. apply andb_true_iff in H as [Hc Hw]. apply negb_true_iff in Hc.
  cbn [app fields_aux]. rewrite Hc. rewrite (IH (c :: cur) r Hw). cbn [rev]. now rewrite <- app_assoc.
Qed.

Lemma fields_aux_spaces : forall n r, fields_aux (repeat 32 n ++ r) [] = fields_aux r [].
Proof. induction n as [|n IH]; intros r; [reflexivity|]. cbn [repeat app fields_aux]. exact (IH r). Qed.

(** a word followed by at least one space *)
Lemma fields_word_sp w n r :
  nospace w = true -> w <> [] ->
  fields_aux (w ++ repeat 32 (S n) ++ r) [] = w :: fields_aux r [].
Proof.
  intros Hw Hne. rewrite fields_aux_word by exact Hw. rewrite app_nil_r.
  cbn [repeat app fields_aux]. change (is_space 32) with true. cbn iota.
  destruct (rev w) as [|x l] eqn:E.
  - exfalso. apply Hne. rewrite <- (rev_involutive w), E. reflexivity.
  - rewrite <- E, rev_involutive. f_equal. apply fields_aux_spaces.
Qed.

Lemma fields_word_end w : nospace w = true -> w <> [] -> fields_aux w [] = [w].
Proof.
  intros Hw Hne. rewrite <- (app_nil_r w) at 1. rewrite fields_aux_word by exact Hw. rewrite app_nil_r.
  cbn [fields_aux]. destruct (rev w) as [|x l] eqn:E.
  - exfalso. apply Hne. rewrite <- (rev_involutive w), E. reflexivity.
  - rewrite <- E, rev_involutive. reflexivity.
Qed.

(** trimming *)
Lemma drop_spaces_nonspace c l : c <> 32 -> drop_spaces (c :: l) = c :: l.
Proof. intros H. cbn [drop_spaces]. replace (c =? 32) with false by lia. reflexivity. Qed.

Lemma drop_spaces_repeat n l : drop_spaces (repeat 32 n ++ l) = drop_spaces l.
Proof. induction n as [|n IH]; [reflexivity|]. cbn [repeat app drop_spaces]. rewrite N.eqb_refl. exact IH. Qed.

Lemma rev_repeat {A} (x : A) n : rev (repeat x n) = repeat x n.
Proof.
  induction n as [|n IH]; [reflexivity|]. cbn [repeat rev]. rewrite IH.
  clear IH. induction n as [|n IH]; [reflexivity|]. cbn [repeat app]. now rewrite IH.
Qed.

(** a non-space character protects what is left of it *)
Lemma trim_right_keep a c y : c <> 32 -> trim_right (a ++ c :: y) = a ++ c :: trim_right y.
Proof.
  intros Hc. unfold trim_right. rewrite rev_app_distr. cbn [rev]. rewrite <- app_assoc. cbn [app].
  remember (rev y) as ry. clear Heqry y.
  induction ry as [|x l IH].
  - cbn [app]. rewrite drop_spaces_nonspace by exact Hc. cbn [rev drop_spaces]. rewrite rev_involutive. reflexivity.
  - cbn [app]. destruct (N.eq_dec x 32) as [->|Hx].
    + cbn [drop_spaces]. rewrite N.eqb_refl. exact IH.
    + rewrite !drop_spaces_nonspace by exact Hx. cbn [rev]. rewrite rev_app_distr. cbn [rev app].
      rewrite rev_involutive, <- !app_assoc. reflexivity.
Qed.

Lemma trim_right_spaces_end a c n : c <> 32 -> trim_right (a ++ c :: repeat 32 n) = a ++ [c].
Proof.
  intros Hc. rewrite trim_right_keep by exact Hc. f_equal. f_equal.
  unfold trim_right. rewrite rev_repeat. rewrite <- (app_nil_r (repeat 32 n)), drop_spaces_repeat. reflexivity.
Qed.

Lemma drop_cr_keep a c y : c <> 13 -> exists y', drop_cr (a ++ c :: y) = a ++ c :: y'.
Proof.
  intros Hc. unfold drop_cr. rewrite rev_app_distr. cbn [rev]. rewrite <- app_assoc. cbn [app].
  destruct (rev y) as [|x l] eqn:E.
  - cbn [app]. assert (y = []) as -> by (rewrite <- (rev_involutive y), E; reflexivity).
    exists []. replace (c =? 13) with false by lia. reflexivity.
  - cbn [app].
    assert (Y : y = rev l ++ [x]) by (rewrite <- (rev_involutive y), E; reflexivity).
    destruct (N.eqb_spec x 13) as [->|Hx].
    + exists (rev l). rewrite rev_app_distr. cbn [rev]. rewrite rev_involutive, <- app_assoc. reflexivity.
    + exists y. reflexivity.
Qed.

(** lines *)
Lemma lines_aux_line : forall l cur r,
  forallb (fun c => negb (c =? 10)) l = true ->
  lines_aux (l ++ 10 :: r) cur = drop_cr (rev cur ++ l) :: lines_aux r [].
Proof.
  induction l as [|c l IH]; intros cur r H.
  - cbn [app lines_aux]. change (10 =? 10) with true. cbn iota. rewrite app_nil_r. reflexivity.
  - cbn [forallb] in H. apply andb_true_iff in H as [Hc Hl]. apply negb_true_iff in Hc.
    cbn [app lines_aux]. rewrite Hc. rewrite (IH (c :: cur) r Hl). cbn [rev]. now rewrite <- app_assoc.
Qed.

Lemma lines_concat : forall ls,
  Forall (fun l => forallb (fun c => negb (c =? 10)) l = true) ls ->
  lines (concat (List.map (fun l => l ++ [10]) ls)) = List.map drop_cr ls.
Proof.
  unfold lines. induction 1 as [|l ls Hl Hls IH]; [reflexivity|].
  cbn [List.map concat]. rewrite <- app_assoc. cbn [app].
  rewrite lines_aux_line by exact Hl. cbn [rev app]. f_equal. exact IH.
Qed.

(** split_at *)
Lemma split_at_no c : forall s, forallb (fun x => negb (x =? c)) s = true -> split_at c s = (s, None).
Proof.
  induction s as [|x r IH]; intros H; [reflexivity|].
  cbn [forallb] in H. apply andb_true_iff in H as [Hx Hr]. apply negb_true_iff in Hx.
  cbn [split_at]. rewrite Hx, (IH Hr). reflexivity.
Qed.
Lemma split_at_first c : forall s y, forallb (fun x => negb (x =? c)) s = true ->
  split_at c (s ++ c :: y) = (s, Some y).
Proof.
  induction s as [|x r IH]; intros y H.
  - cbn [app split_at]. rewrite N.eqb_refl. reflexivity.
  - cbn [forallb] in H. apply andb_true_iff in H as [Hx Hr]. apply negb_true_iff in Hx.
    cbn [app split_at]. rewrite Hx, (IH y Hr). reflexivity.
Qed.

(** split_all and join *)
Lemma split_all_word c : forall w cur r, forallb (fun x => negb (x =? c)) w = true ->
  split_all c (w ++ r) cur = split_all c r (rev w ++ cur).
Proof.
  induction w as [|x w IH]; intros cur r H; [reflexivity|].
  cbn [forallb] in H. apply andb_true_iff in H as [Hx Hw]. apply negb_true_iff in Hx.
  cbn [app split_all]. rewrite Hx, (IH (x :: cur) r Hw). cbn [rev]. now rewrite <- app_assoc.
Qed.

Lemma split_join c : forall ss, ss <> [] ->
  Forall (fun w => forallb (fun x => negb (x =? c)) w = true) ss ->
  split_all c (PktCls.join [c] ss) [] = ss.
Proof.
  induction ss as [|w ss IH]; intros Hne F; [congruence|].
  inversion F as [|? ? Hw Hss]; subst. destruct ss as [|w2 ss'].
  - cbn [PktCls.join]. rewrite <- (app_nil_r w) at 1. rewrite split_all_word by exact Hw.
    cbn [split_all]. rewrite app_nil_r, rev_involutive. reflexivity.
  - change (PktCls.join [c] (w :: w2 :: ss')) with (w ++ [c] ++ PktCls.join [c] (w2 :: ss')).
    rewrite split_all_word by exact Hw. cbn [app split_all]. rewrite N.eqb_refl, app_nil_r, rev_involutive.
    f_equal. apply IH; [discriminate|exact Hss].
Qed.



Definition no35 (w : list N) : bool := forallb (fun x => negb (x =? 35)) w.
Definition no44 (w : list N) : bool := forallb (fun x => negb (x =? 44)) w.
Definition no10 (w : list N) : bool := forallb (fun x => negb (x =? 10)) w.

Lemma drop_spaces_decomp : forall l, exists n, l = repeat 32 n ++ drop_spaces l.
Proof.
  induction l as [|c r [n IH]]; [exists O; reflexivity|]. cbn [drop_spaces].
  destruct (N.eqb_spec c 32) as [->|Hc].
  - exists (S n). cbn [repeat app]. now rewrite <- IH.
  - exists O. reflexivity.
Qed.

Lemma trim_right_decomp x : exists n, x = trim_right x ++ repeat 32 n.
Proof.
  unfold trim_right. destruct (drop_spaces_decomp (rev x)) as [n E]. exists n.
  rewrite <- (rev_involutive x) at 1. rewrite E at 1. rewrite rev_app_distr, rev_repeat. reflexivity.
Qed.

Lemma drop_cr_decomp x : drop_cr x = x \/ x = drop_cr x ++ [13].
Proof.
  unfold drop_cr. destruct (rev x) as [|c r] eqn:E; [now left|].
  destruct (N.eqb_spec c 13) as [->|Hc]; [right|now left].
  rewrite <- (rev_involutive x), E. reflexivity.
Qed.

Lemma fields_aux_trailing : forall y cur sp, forallb is_space sp = true ->
  fields_aux (y ++ sp) cur = fields_aux y cur.
Proof.
  induction y as [|c y IH]; intros cur sp H.
  - cbn [app]. revert cur. induction sp as [|s sp IHs]; intros cur; [reflexivity|].
    cbn [forallb] in H. apply andb_true_iff in H as [Hs Hsp]. cbn [fields_aux]. rewrite Hs.
    destruct cur as [|x cur'].
    + rewrite (IHs Hsp []). reflexivity.
    + rewrite (IHs Hsp []). reflexivity.
  - cbn [app fields_aux]. destruct (is_space c).
    + destruct cur; now rewrite IH.
    + now apply IH.
Qed.

Lemma repeat_space n : forallb is_space (repeat 32 n) = true.
Proof. induction n as [|n IH]; [reflexivity|]. cbn [repeat forallb]. now rewrite IH. Qed.

Lemma fields_trim_right x : fields (trim_right x) = fields x.
Proof.
  destruct (trim_right_decomp x) as [n E]. unfold fields. rewrite E at 2.
  now rewrite fields_aux_trailing by apply repeat_space.
Qed.
Lemma fields_drop_cr x : fields (drop_cr x) = fields x.
Proof.
  destruct (drop_cr_decomp x) as [E|E]; [now rewrite E|]. unfold fields. rewrite E at 2.
  now rewrite fields_aux_trailing by reflexivity.
Qed.

Lemma forallb_prefix {A} (p : A -> bool) a b : forallb p (a ++ b) = true -> forallb p a = true.
Proof. rewrite forallb_app. intros H. apply andb_true_iff in H. tauto. Qed.

Lemma no35_trim x : no35 x = true -> no35 (trim_right x) = true.
Proof. destruct (trim_right_decomp x) as [n E]. intros H. rewrite E in H. now apply forallb_prefix in H. Qed.
Lemma no35_drop_cr x : no35 x = true -> no35 (drop_cr x) = true.
Proof.
  destruct (drop_cr_decomp x) as [E|E]; [now rewrite E|]. intros H. rewrite E in H. now apply forallb_prefix in H.
Qed.
Lemma no10_trim x : no10 x = true -> no10 (trim_right x) = true.
Proof. destruct (trim_right_decomp x) as [n E]. intros H. rewrite E in H. now apply forallb_prefix in H. Qed.

(** five padded cells: the fields are the non-empty cells *)
Lemma fields_body c0 c1 c2 c3 c4 a0 a1 a2 a3 n4 :
  nospace c0 = true -> c0 <> [] -> nospace c1 = true -> c1 <> [] ->
  nospace c2 = true -> c2 <> [] -> nospace c3 = true -> c3 <> [] -> nospace c4 = true ->
  fields ((c0 ++ repeat 32 (S a0)) ++ (c1 ++ repeat 32 (S a1)) ++ (c2 ++ repeat 32 (S a2)) ++
          (c3 ++ repeat 32 (S a3)) ++ (c4 ++ repeat 32 n4) ++ []) =
  [c0; c1; c2; c3] ++ match c4 with [] => [] | _ => [c4] end.
Proof.
  intros S0 N0 S1 N1 S2 N2 S3 N3 S4. unfold fields.
  rewrite <- !app_assoc.
  rewrite (fields_word_sp c0 a0) by assumption.
  rewrite (fields_word_sp c1 a1) by assumption.
  rewrite (fields_word_sp c2 a2) by assumption.
  rewrite (fields_word_sp c3 a3) by assumption.
  cbn [app]. f_equal. f_equal. f_equal. f_equal.
  rewrite app_nil_r. rewrite fields_aux_trailing by apply repeat_space.
  destruct c4 as [|x c4']; [reflexivity|]. now apply fields_word_end.
Qed.

(** ------------------------------------------------------------------
    Atoms: what [tb_ok] gives. *)
Lemma ia_eqb_eq a b : ia_eqb a b = true <-> a = b.
Proof.
  unfold ia_eqb. destruct a, b. cbn [fst snd]. rewrite andb_true_iff, !N.eqb_eq. split.
  - intros [-> ->]. reflexivity.
  - intros H. inversion H. auto.
Qed.
Lemma ipaddr_eqb_eq a b : ipaddr_eqb a b = true <-> a = b.
Proof.
  unfold ipaddr_eqb. destruct a, b. cbn [fst snd]. rewrite andb_true_iff, N.eqb_eq, Bool.eqb_true_iff. split.
  - intros [-> ->]. reflexivity.
  - intros H. inversion H. auto.
Qed.

Lemma option_eqb_eq {A} (eqb : A -> A -> bool) :
  (forall x y, eqb x y = true <-> x = y) -> forall a b, option_eqb eqb a b = true <-> a = b.
Proof.
  intros H [x|] [y|]; cbn [option_eqb]; split; intros E; try discriminate; try reflexivity.
  - f_equal. now apply H.
  - inversion E. now apply H.
Qed.

Section Atoms.
  Variable tb : atoms.
  Hypothesis OK : tb_ok tb = true.

  Lemma canon_atom a : In a tb -> a_canon a = true ->
    fieldlike (a_text a) = true /\
    exists b, lookup tb (a_text a) = Some b /\ a_ia b = a_ia a /\ a_pfx b = a_pfx a /\ a_ip b = a_ip a.
  Proof.
    intros Hin Hc. unfold tb_ok in OK. rewrite forallb_forall in OK. specialize (OK a Hin). rewrite Hc in OK.
    apply andb_true_iff in OK as [F L]. split; [exact F|].
    destruct (lookup tb (a_text a)) as [b|]; [|discriminate]. exists b. split; [reflexivity|].
    unfold atom_same in L. apply andb_true_iff in L as [L L3]. apply andb_true_iff in L as [L1 L2].
    apply (option_eqb_eq ia_eqb ia_eqb_eq) in L1. apply (option_eqb_eq pfx_eqb pfx_eqb_eq) in L2.
    apply (option_eqb_eq ipaddr_eqb ipaddr_eqb_eq) in L3. auto.
  Qed.

  Lemma show_ia_ok v s : show_ia tb v = Some s -> fieldlike s = true /\ parse_ia tb s = Ok v.
  Proof.
    unfold show_ia. destruct (find _ tb) as [a|] eqn:E; [|discriminate]. intros H; inversion H; subst s.
    apply find_some in E as [Hin Hp]. apply andb_true_iff in Hp as [Hc Hv].
    destruct (a_ia a) as [x|] eqn:Ea; [|discriminate]. apply ia_eqb_eq in Hv. subst x.
    destruct (canon_atom a Hin Hc) as (F & b & L & B1 & _ & _). split; [exact F|].
    unfold parse_ia. rewrite L, B1, Ea. reflexivity.
  Qed.
  Lemma show_pfx_ok v s : show_pfx tb v = Some s -> fieldlike s = true /\ parse_pfx tb s = Ok v.
  Proof.
    unfold show_pfx. destruct (find _ tb) as [a|] eqn:E; [|discriminate]. intros H; inversion H; subst s.
    apply find_some in E as [Hin Hp]. apply andb_true_iff in Hp as [Hc Hv].
    destruct (a_pfx a) as [x|] eqn:Ea; [|discriminate]. apply pfx_eqb_eq in Hv. subst x.
    destruct (canon_atom a Hin Hc) as (F & b & L & _ & B2 & _). split; [exact F|].
    unfold parse_pfx. rewrite L, B2, Ea. reflexivity.
  Qed.
  Lemma show_ip_ok v s : show_ip tb v = Some s -> fieldlike s = true /\ parse_ip tb s = Ok v.
  Proof.
    unfold show_ip. destruct (find _ tb) as [a|] eqn:E; [|discriminate]. intros H; inversion H; subst s.
    apply find_some in E as [Hin Hp]. apply andb_true_iff in Hp as [Hc Hv].
    destruct (a_ip a) as [x|] eqn:Ea; [|discriminate]. apply ipaddr_eqb_eq in Hv. subst x.
    destruct (canon_atom a Hin Hc) as (F & b & L & _ & _ & B3). split; [exact F|].
    unfold parse_ip. rewrite L, B3, Ea. reflexivity.
  Qed.
End Atoms.

Lemma fieldlike_props s : fieldlike s = true ->
  s <> [] /\ nospace s = true /\ no35 s = true /\ no44 s = true /\ (exists c r, s = c :: r /\ c <> 33).
Proof.
  unfold fieldlike. destruct s as [|c r]; [discriminate|]. intros H. apply andb_true_iff in H as [Hc Hall].
  split; [discriminate|].
  assert (G : forall q : N -> bool, (forall x, negb (is_space x) && negb (x =? 35) && negb (x =? 44) = true -> q x = true) ->
              forallb q (c :: r) = true).
  { intros q Hq. rewrite forallb_forall in *. intros x Hx. apply Hq. now apply Hall. }
  repeat split.
  - apply G. intros x Hx. apply andb_true_iff in Hx as [Hx _]. apply andb_true_iff in Hx as [Hx _]. exact Hx.
  - apply G. intros x Hx. apply andb_true_iff in Hx as [Hx _]. apply andb_true_iff in Hx as [_ Hx]. exact Hx.
  - apply G. intros x Hx. apply andb_true_iff in Hx as [_ Hx]. exact Hx.
  - exists c, r. split; [reflexivity|]. apply negb_true_iff in Hc. lia.
Qed.



Lemma nospace_app a b : nospace a = true -> nospace b = true -> nospace (a ++ b) = true.
Proof. unfold nospace. intros. rewrite forallb_app. now rewrite H, H0. Qed.
Lemma no35_app a b : no35 a = true -> no35 b = true -> no35 (a ++ b) = true.
Proof. unfold no35. intros. rewrite forallb_app. now rewrite H, H0. Qed.
Lemma no10_app a b : no10 a = true -> no10 b = true -> no10 (a ++ b) = true.
Proof. unfold no10. intros. rewrite forallb_app. now rewrite H, H0. Qed.
Lemma no35_repeat n : no35 (repeat 32 n) = true.
Proof. induction n as [|n IH]; [reflexivity|]. cbn [repeat]. unfold no35 in *. cbn [forallb]. now rewrite IH. Qed.
Lemma no10_repeat n : no10 (repeat 32 n) = true.
Proof. induction n as [|n IH]; [reflexivity|]. cbn [repeat]. unfold no10 in *. cbn [forallb]. now rewrite IH. Qed.
Lemma nospace_no10 w : nospace w = true -> no10 w = true.
Proof.
  unfold nospace, no10.
  induction w as [|c w IH]; [reflexivity|]. cbn [forallb]. intros H. apply andb_true_iff in H as [Hc Hw].
  rewrite (IH Hw), andb_true_r. unfold is_space in Hc. lia.
Qed.

Section Roundtrip.
  Variable tb : atoms.
  Hypothesis OK : tb_ok tb = true.

  (** cells *)
  Lemma iam_str_ok m s : iam_str tb m = Some s ->
    s <> [] /\ nospace s = true /\ no35 s = true /\ parse_iam tb s = Ok m.
  Proof.
    unfold iam_str, opt_bind. destruct (show_ia tb (m_isd m, m_as m)) as [t|] eqn:E; [|discriminate].
    intros H; inversion H; subst s. destruct (show_ia_ok tb OK _ _ E) as [F P].
    destruct (fieldlike_props t F) as (Hne & Hs & H35 & _ & c & r & -> & Hc).
    destruct m as [neg isd as_]. cbn [m_neg m_isd m_as] in *. destruct neg; cbn [app].
    - repeat split; [discriminate| | |].
      + unfold nospace in *. cbn [forallb] in *. now rewrite Hs.
      + unfold no35 in *. cbn [forallb] in *. now rewrite H35.
      + unfold parse_iam, strip_bang. change (33 =? 33) with true. cbn iota. rewrite P. reflexivity.
    - repeat split; [discriminate|exact Hs|exact H35|].
      unfold parse_iam, strip_bang. replace (c =? 33) with false by lia. rewrite P. reflexivity.
  Qed.

  Lemma pfxs_str_ok : forall ps ss, pfxs_str tb ps = Some ss ->
    length ss = length ps /\ Forall (fun s => fieldlike s = true) ss /\ parse_pfxs tb ss = Ok ps.
  Proof.
    induction ps as [|p ps IH]; intros ss H.
    - inversion H; subst. repeat split; constructor.
    - cbn [pfxs_str] in H. unfold opt_bind in H. destruct (show_pfx tb p) as [s|] eqn:E; [|discriminate].
      destruct (pfxs_str tb ps) as [ss'|] eqn:E'; [|discriminate]. inversion H; subst ss.
      destruct (IH ss' eq_refl) as (L & F & P). destruct (show_pfx_ok tb OK _ _ E) as [Fs Ps].
      repeat split; [cbn; now rewrite L|now constructor|]. cbn [parse_pfxs]. rewrite Ps. cbn [res_bind]. rewrite P. reflexivity.
  Qed.

  Lemma join_props : forall ss, Forall (fun s => fieldlike s = true) ss -> ss <> [] ->
    PktCls.join [44] ss <> [] /\ nospace (PktCls.join [44] ss) = true /\ no35 (PktCls.join [44] ss) = true /\
    (exists c r, PktCls.join [44] ss = c :: r /\ c <> 33).
  Proof.
    induction ss as [|s ss IH]; intros F Hne; [congruence|].
    inversion F as [|? ? Fs Fss]; subst. destruct (fieldlike_props s Fs) as (Hn & Hs & H35 & _ & c & r & E & Hc).
    destruct ss as [|s2 ss'].
    - cbn [PktCls.join]. repeat split; try assumption. exists c, r. auto.
    - change (PktCls.join [44] (s :: s2 :: ss')) with (s ++ [44] ++ PktCls.join [44] (s2 :: ss')).
      destruct (IH Fss ltac:(discriminate)) as (_ & Js & J35 & _).
      repeat split.
      + subst s. discriminate.
      + apply nospace_app; [exact Hs|]. apply nospace_app; [reflexivity|exact Js].
      + apply no35_app; [exact H35|]. apply no35_app; [reflexivity|exact J35].
      + subst s. exists c, (r ++ [44] ++ PktCls.join [44] (s2 :: ss')). split; [reflexivity|exact Hc].
  Qed.

  Lemma netm_str_ok m s : n_allowed m <> [] -> netm_str tb m = Some s ->
    s <> [] /\ nospace s = true /\ no35 s = true /\ parse_netm tb s = Ok m.
  Proof.
    intros Hne. unfold netm_str, opt_bind. destruct (pfxs_str tb (n_allowed m)) as [ss|] eqn:E; [|discriminate].
    intros H; inversion H; subst s. destruct (pfxs_str_ok _ _ E) as (L & F & P).
    assert (Hss : ss <> []) by (destruct ss; [destruct (n_allowed m); [congruence|discriminate]|discriminate]).
    destruct (join_props ss F Hss) as (Jn & Js & J35 & c & r & Ej & Hc).
    assert (S44 : split_all 44 (PktCls.join [44] ss) [] = ss).
    { apply split_join; [exact Hss|]. eapply Forall_impl; [|exact F]. intros a Fa.
      now destruct (fieldlike_props a Fa) as (_ & _ & _ & H44 & _). }
    destruct m as [al neg]. cbn [n_allowed n_neg] in *. destruct neg; cbn [app].
    - repeat split; [discriminate| | |].
      + unfold nospace in *. cbn [forallb]. now rewrite Js.
      + unfold no35 in *. cbn [forallb]. now rewrite J35.
      + unfold parse_netm, strip_bang. change (33 =? 33) with true. cbn iota. rewrite S44, P. reflexivity.
    - repeat split; [exact Jn|exact Js|exact J35|].
      unfold parse_netm, strip_bang. rewrite Ej. replace (c =? 33) with false by lia. rewrite <- Ej, S44, P. reflexivity.
  Qed.

  Lemma action_str_ok a : action_eqb a AUnknown = false ->
    action_str a <> [] /\ nospace (action_str a) = true /\ no35 (action_str a) = true /\
    parse_action (action_str a) = Ok a.
  Proof. destruct a; intros H; try discriminate H; repeat split; try reflexivity; discriminate. Qed.

  Lemma col_width_ge rows row j : In row rows ->
    (length (nth j (fst row) []) + 4 <= col_width rows j)%nat.
  Proof.
    unfold col_width. induction rows as [|x rows IH]; intros Hin; [destruct Hin|].
    cbn [fold_right]. destruct Hin as [<-|Hin]; [lia|]. specialize (IH Hin). lia.
  Qed.

  Lemma pad_shape w c : (length c + 4 <= w)%nat -> exists a, pad w c = c ++ repeat 32 (S a).
  Proof. intros H. unfold pad. exists (w - length c - 1)%nat. f_equal. f_equal. lia. Qed.

  Lemma rule_same_refl r c : rule_same r (Rule (r_action r) (r_from r) (r_to r) (r_net r) (r_nexthop r) c) = true.
  Proof.
    unfold rule_same. cbn [r_action r_from r_to r_net r_nexthop].
    assert (A : action_eqb (r_action r) (r_action r) = true) by apply N.eqb_refl.
    assert (I : forall m, iam_eqb m m = true).
    { intros m. unfold iam_eqb. now rewrite Bool.eqb_reflx, !N.eqb_refl. }
    assert (Nm : netm_eqb (r_net r) (r_net r) = true).
    { unfold netm_eqb. rewrite Bool.eqb_reflx. cbn [andb]. apply list_eqb_eq; [apply pfx_eqb_eq|reflexivity]. }
    assert (H : option_eqb ipaddr_eqb (r_nexthop r) (r_nexthop r) = true).
    { apply (option_eqb_eq ipaddr_eqb ipaddr_eqb_eq). reflexivity. }
    now rewrite A, !I, Nm, H.
  Qed.

  (** one line of MarshalText is parsed back to the rule it came from (but for the comment) *)
  Lemma parse_layout_row rows r row :
    image_rule r = true -> rule_cells tb r = Some row -> In row rows ->
    no10 (trim_right (concat (List.map (fun j => pad (col_width rows j) (nth j (fst row) [])) (seq 0 5)) ++ snd row)) = true /\
    exists c, parse_rule tb (drop_cr (trim_right
                (concat (List.map (fun j => pad (col_width rows j) (nth j (fst row) [])) (seq 0 5)) ++ snd row)))
              = Ok (Rule (r_action r) (r_from r) (r_to r) (r_net r) (r_nexthop r) c).
  Proof.
    intros Im Hc Hin. unfold image_rule in Im.
    apply andb_true_iff in Im as [Im I4]. apply andb_true_iff in Im as [Im I3]. apply andb_true_iff in Im as [I1 I2].
    apply negb_true_iff in I1.
    unfold rule_cells, opt_bind in Hc.
    destruct (iam_str tb (r_from r)) as [f|] eqn:Ef; [|discriminate].
    destruct (iam_str tb (r_to r)) as [t|] eqn:Et; [|discriminate].
    destruct (netm_str tb (r_net r)) as [n|] eqn:En; [|discriminate].
    destruct (match r_nexthop r with Some ip => show_ip tb ip | None => Some [] end) as [h|] eqn:Eh; [|discriminate].
    inversion Hc; subst row. clear Hc.
    set (tr := match r_comment r with [] => [] | c => str "# " ++ c end) in *. cbn [fst snd] in *.
    destruct (action_str_ok (r_action r) I1) as (A0 & A1 & A2 & A3).
    destruct (iam_str_ok _ _ Ef) as (F0 & F1 & F2 & F3).
    destruct (iam_str_ok _ _ Et) as (T0 & T1 & T2 & T3).
    assert (Hal : n_allowed (r_net r) <> []) by (destruct (n_allowed (r_net r)); [discriminate|discriminate]).
    destruct (netm_str_ok _ _ Hal En) as (N0 & N1 & N2 & N3).
    assert (Hh : nospace h = true /\ no35 h = true /\
                 match r_nexthop r with
                 | Some ip => h <> [] /\ parse_ip tb h = Ok ip /\ action_eqb (r_action r) AAdvertise = true
                 | None => h = [] end).
    { destruct (r_nexthop r) as [ip|].
      - destruct (show_ip_ok tb OK _ _ Eh) as [Fh Ph].
        destruct (fieldlike_props h Fh) as (Hn & Hs & H35 & _). auto.
      - inversion Eh; subst. auto. }
    destruct Hh as (H1 & H2 & H3).
    set (cells := [action_str (r_action r); f; t; n; h]) in *.
    cbn [seq List.map concat]. cbn [nth cells].
    destruct (pad_shape _ _ (col_width_ge rows (cells, tr) 0 Hin)) as [a0 E0]. cbn [fst nth cells] in E0. rewrite E0. clear E0.
    destruct (pad_shape _ _ (col_width_ge rows (cells, tr) 1 Hin)) as [a1 E1]. cbn [fst nth cells] in E1. rewrite E1. clear E1.
    destruct (pad_shape _ _ (col_width_ge rows (cells, tr) 2 Hin)) as [a2 E2]. cbn [fst nth cells] in E2. rewrite E2. clear E2.
    destruct (pad_shape _ _ (col_width_ge rows (cells, tr) 3 Hin)) as [a3 E3]. cbn [fst nth cells] in E3. rewrite E3. clear E3.
    unfold pad. cbn [fst nth cells].
    set (n4 := (col_width rows 4 - length h)%nat).
    set (body := (action_str (r_action r) ++ repeat 32 (S a0)) ++ (f ++ repeat 32 (S a1)) ++
                 (t ++ repeat 32 (S a2)) ++ (n ++ repeat 32 (S a3)) ++ (h ++ repeat 32 n4) ++ []).
    assert (B35 : no35 body = true).
    { unfold body. repeat (apply no35_app; try assumption; try apply no35_repeat). reflexivity. }
    assert (B10 : no10 body = true).
    { unfold body. repeat (apply no10_app; try (apply nospace_no10; assumption); try apply no10_repeat). reflexivity. }
    assert (FB : fields body = [action_str (r_action r); f; t; n] ++ match h with [] => [] | _ => [h] end).
    { unfold body. now apply fields_body. }
    (* what the columns parse to *)
    assert (Fin : forall b cm, fields b = [action_str (r_action r); f; t; n] ++ match h with [] => [] | _ => [h] end ->
              split_at 35 (b ++ match cm with Some y => 35 :: y | None => [] end) = (b, cm) ->
              exists c, parse_rule tb (b ++ match cm with Some y => 35 :: y | None => [] end)
                        = Ok (Rule (r_action r) (r_from r) (r_to r) (r_net r) (r_nexthop r) c)).
    { intros b cm Fb Sp. unfold parse_rule. rewrite Sp, Fb. cbn [app].
      rewrite A3. cbn [res_bind]. rewrite F3. cbn [res_bind]. rewrite T3. cbn [res_bind]. rewrite N3. cbn [res_bind].
      destruct (r_nexthop r) as [ip|].
      - destruct H3 as (Hn & Pip & Adv). destruct h as [|x h']; [congruence|]. rewrite Adv, Pip. cbn [res_bind]. eauto.
      - subst h. eauto. }
    unfold tr. destruct (r_comment r) as [|x cm] eqn:Ecm.
    - (* no comment *)
      rewrite app_nil_r. split; [now apply no10_trim|].
      set (line := drop_cr (trim_right body)).
      assert (L35 : no35 line = true) by (apply no35_drop_cr, no35_trim, B35).
      assert (LF : fields line = fields body) by (unfold line; now rewrite fields_drop_cr, fields_trim_right).
      destruct (Fin line None) as [c Hc]; [now rewrite LF| |].
      + rewrite app_nil_r. now apply split_at_no.
      + rewrite app_nil_r in Hc. exists c. exact Hc.
    - (* comment *)
      change (str "# " ++ x :: cm) with (35 :: 32 :: x :: cm).
      rewrite trim_right_keep by discriminate. split.
      + apply no10_app; [exact B10|]. cbn [forallb no10]. unfold no10. cbn [forallb].
        change (negb (35 =? 10)) with true. cbn [andb].
        apply (no10_trim (32 :: x :: cm)). unfold no10. cbn [forallb] in *. exact I4.
      + destruct (drop_cr_keep body 35 (trim_right (32 :: x :: cm)) ltac:(discriminate)) as [y' ->].
        destruct (Fin body (Some y') FB) as [c Hc]; [now apply split_at_first|]. exists c. exact Hc.
  Qed.
End Roundtrip.



Definition row_line (rows : list (list (list N) * list N)) (row : list (list N) * list N) : list N :=
  trim_right (concat (List.map (fun j => pad (col_width rows j) (nth j (fst row) [])) (seq 0 5)) ++ snd row).

Lemma marshal_lines tb p s : marshal tb p = Some s ->
  exists rows, all_cells tb (p_rules p) = Some rows /\
               s = concat (List.map (fun l => l ++ [10]) (List.map (row_line rows) rows)).
Proof.
  unfold marshal, opt_bind. destruct (all_cells tb (p_rules p)) as [rows|]; [|discriminate].
  intros H; inversion H. exists rows. split; [reflexivity|]. rewrite map_map. reflexivity.
Qed.

Lemma rows_parse tb (OK : tb_ok tb = true) rows : forall rs rows',
  all_cells tb rs = Some rows' -> incl rows' rows -> forallb image_rule rs = true ->
  Forall (fun l => no10 l = true) (List.map (row_line rows) rows') /\
  exists out, parse_rules tb (List.map drop_cr (List.map (row_line rows) rows')) = Ok out /\
              list_eqb rule_same rs out = true.
Proof.
  induction rs as [|r rs IH]; intros rows' Hc Hi Him.
  - inversion Hc; subst. split; [constructor|]. exists []. split; reflexivity.
  - cbn [all_cells] in Hc. unfold opt_bind in Hc.
    destruct (rule_cells tb r) as [row|] eqn:Er; [|discriminate].
    destruct (all_cells tb rs) as [rows''|] eqn:Ers; [|discriminate]. inversion Hc; subst rows'. clear Hc.
    cbn [forallb] in Him. apply andb_true_iff in Him as [Ir Irs].
    destruct (IH rows'' eq_refl (fun x Hx => Hi x (or_intror Hx)) Irs) as (N & out & P & S).
    destruct (parse_layout_row tb OK rows r row Ir Er (Hi row (or_introl eq_refl))) as (N1 & c & Pr).
    split; [constructor; [exact N1|exact N]|].
    exists (Rule (r_action r) (r_from r) (r_to r) (r_net r) (r_nexthop r) c :: out). split.
    + cbn [List.map parse_rules]. unfold row_line at 1. rewrite Pr. cbn [res_bind]. rewrite P. reflexivity.
    + cbn [list_eqb]. rewrite rule_same_refl, S. reflexivity.
Qed.

(** MarshalText then UnmarshalText keeps every rule but for its comment *)
Lemma marshal_unmarshal tb p s :
  tb_ok tb = true -> forallb image_rule (p_rules p) = true -> marshal tb p = Some s ->
  exists rs, unmarshal tb s = Ok rs /\ list_eqb rule_same (p_rules p) rs = true.
Proof.
  intros OK Im M. destruct (marshal_lines tb p s M) as (rows & Hc & ->).
  destruct (rows_parse tb OK rows (p_rules p) rows Hc (fun x Hx => Hx) Im) as (N & out & P & S).
  exists out. split; [|exact S]. unfold unmarshal. rewrite lines_concat; [exact P|].
  eapply Forall_impl; [|exact N]. intros a Ha. exact Ha.
Qed.

(** rules equal but for the comment decide and advertise alike *)
Lemma iam_eqb_eq a b : iam_eqb a b = true -> a = b.
Proof.
  unfold iam_eqb. destruct a, b. cbn [m_neg m_isd m_as]. intros H.
  apply andb_true_iff in H as [H H3]. apply andb_true_iff in H as [H1 H2].
  apply Bool.eqb_prop in H1. apply N.eqb_eq in H2, H3. now subst.
Qed.
Lemma netm_eqb_eq a b : netm_eqb a b = true -> a = b.
Proof.
  unfold netm_eqb. destruct a, b. cbn [n_neg n_allowed]. intros H.
  apply andb_true_iff in H as [H1 H2]. apply Bool.eqb_prop in H1.
  apply (list_eqb_eq pfx_eqb pfx_eqb_eq) in H2. now subst.
Qed.
Lemma action_eqb_eq a b : action_eqb a b = true -> a = b.
Proof. destruct a, b; intros H; try reflexivity; discriminate H. Qed.

Lemma rule_same_fields a b : rule_same a b = true ->
  r_action a = r_action b /\ r_from a = r_from b /\ r_to a = r_to b /\ r_net a = r_net b.
Proof.
  unfold rule_same. intros H. apply andb_true_iff in H as [H _]. apply andb_true_iff in H as [H H4].
  apply andb_true_iff in H as [H H3]. apply andb_true_iff in H as [H1 H2].
  repeat split; [now apply action_eqb_eq|now apply iam_eqb_eq|now apply iam_eqb_eq|now apply netm_eqb_eq].
Qed.

Lemma same_rules_same_decisions : forall rs rs' d,
  list_eqb rule_same rs rs' = true ->
  (forall from to pref a, match_set (Policy rs d) from to pref a = match_set (Policy rs' d) from to pref a) /\
  (forall from to, advertise_list (Policy rs d) from to = advertise_list (Policy rs' d) from to).
Proof.
  induction rs as [|r rs IH]; intros [|r' rs'] d H; try discriminate H.
  - split; reflexivity.
  - cbn [list_eqb] in H. apply andb_true_iff in H as [Hr Hrs].
    destruct (rule_same_fields r r' Hr) as (E1 & E2 & E3 & E4). destruct (IH rs' d Hrs) as [M A]. split.
    + intros from to pref a. specialize (M from to pref a). unfold match_set in *. cbn [p_rules p_default fold_right] in *.
      unfold match_step at 1 3. rewrite E1, E2, E3, E4.
      apply andb_true_iff || idtac.
      destruct (in_prefix pref a); [|now rewrite !andb_false_r].
      rewrite !andb_true_r in *.
      destruct (negb (ia_match (r_from r') from) || negb (ia_match (r_to r') to)); [exact M|].
      destruct (r_action r'); try exact M; now rewrite M.
    + intros from to. specialize (A from to). unfold advertise_list in *. cbn [p_rules flat_map] in *.
      now rewrite E1, E2, E3, E4, A.
Qed.

(** ------------------------------------------------------------------
    The image of UnmarshalText. *)
Lemma lines_aux_no10 : forall s cur, no10 cur = true ->
  Forall (fun l => no10 l = true) (lines_aux s cur).
Proof.
  assert (D : forall x, no10 x = true -> no10 (drop_cr x) = true).
  { intros x H. destruct (drop_cr_decomp x) as [E|E]; [now rewrite E|]. rewrite E in H. now apply forallb_prefix in H. }
  assert (R : forall x, no10 x = true -> no10 (rev x) = true).
  { intros x H. unfold no10 in *. rewrite forallb_forall in *. intros y Hy. apply H. now apply in_rev. }
  induction s as [|c r IH]; intros cur Hc.
  - cbn [lines_aux]. destruct cur; [constructor|]. constructor; [|constructor]. now apply D, R.
  - cbn [lines_aux]. destruct (N.eqb_spec c 10) as [->|Hn].
    + constructor; [now apply D, R|]. now apply IH.
    + apply IH. unfold no10 in *. cbn [forallb]. rewrite Hc. replace (c =? 10) with false by lia. reflexivity.
Qed.

Lemma split_at_suffix c : forall s a b, split_at c s = (a, Some b) -> no10 s = true -> no10 b = true.
Proof.
  induction s as [|x r IH]; intros a b H N; [discriminate|].
  cbn [split_at] in H. unfold no10 in N. cbn [forallb] in N. apply andb_true_iff in N as [_ Nr].
  destruct (x =? c).
  - inversion H; subst. exact Nr.
  - destruct (split_at c r) as [a' b'] eqn:E. inversion H; subst. now apply (IH a' b).
Qed.

Lemma parse_pfxs_len tb : forall ws ps, parse_pfxs tb ws = Ok ps -> length ps = length ws.
Proof.
  induction ws as [|w ws IH]; intros ps H.
  - inversion H. reflexivity.
  - cbn [parse_pfxs] in H. destruct (parse_pfx tb w); try discriminate. cbn [res_bind] in H.
    destruct (parse_pfxs tb ws) as [ps'|]; try discriminate. inversion H. cbn. now rewrite (IH ps' eq_refl).
Qed.

Lemma split_all_nonempty c : forall s cur, split_all c s cur <> [].
Proof. induction s as [|x r IH]; intros cur; cbn [split_all]; [discriminate|]. destruct (x =? c); [discriminate|apply IH]. Qed.

Lemma parse_rule_image tb l r : no10 l = true -> parse_rule tb l = Ok r -> image_rule r = true.
Proof.
  intros Nl. unfold parse_rule. destruct (split_at 35 l) as [b c] eqn:Es.
  assert (Hcm : no10 (match c with Some x => trim_right (trim_prefix1 x) | None => [] end) = true).
  { destruct c as [x|]; [|reflexivity]. apply no10_trim.
    pose proof (split_at_suffix 35 l b x Es Nl) as Nx. destruct x as [|y x']; [reflexivity|].
    cbn [trim_prefix1]. destruct (y =? 32); [|exact Nx].
    unfold no10 in *. cbn [forallb] in Nx. apply andb_true_iff in Nx. tauto. }
  destruct (fields b) as [|c0 [|c1 [|c2 [|c3 rest]]]]; try discriminate.
  destruct (parse_action c0) as [act|] eqn:Ea; try discriminate. cbn [res_bind].
  destruct (parse_iam tb c1) as [from|]; try discriminate. cbn [res_bind].
  destruct (parse_iam tb c2) as [to|]; try discriminate. cbn [res_bind].
  destruct (parse_netm tb c3) as [net|] eqn:En; try discriminate. cbn [res_bind].
  assert (Hact : action_eqb act AUnknown = false).
  { unfold parse_action in Ea. repeat (destruct (bytes_eqb c0 _); [inversion Ea; reflexivity|]). discriminate. }
  assert (Hnet : match n_allowed net with [] => false | _ => true end = true).
  { unfold parse_netm in En. destruct (strip_bang c3) as [neg w]. 
    destruct (parse_pfxs tb (split_all 44 w [])) as [ps|] eqn:Ep; try discriminate.
    cbn [res_bind] in En. inversion En; subst net. cbn [n_allowed].
    apply parse_pfxs_len in Ep. destruct ps; [|reflexivity].
    pose proof (split_all_nonempty 44 w []). destruct (split_all 44 w []); [congruence|discriminate]. }
  destruct rest as [|c4 [|c5 rest]].
  - intros H; inversion H; subst r. unfold image_rule. cbn [r_action r_nexthop r_net r_comment].
    rewrite Hact, Hnet. cbn [negb andb]. exact Hcm.
  - destruct (action_eqb act AAdvertise) eqn:Adv; [|discriminate].
    destruct (parse_ip tb c4) as [ip|]; try discriminate. cbn [res_bind].
    intros H; inversion H; subst r. unfold image_rule. cbn [r_action r_nexthop r_net r_comment].
    rewrite Hact, Hnet, Adv. cbn [negb andb]. exact Hcm.
  - discriminate.
Qed.

Lemma unmarshal_image tb text rs : unmarshal tb text = Ok rs -> forallb image_rule rs = true.
Proof.
  unfold unmarshal. pose proof (lines_aux_no10 text [] eq_refl) as N. fold (lines text) in N.
  revert rs. induction N as [|l ls Hl Hls IH]; intros rs H.
  - inversion H. reflexivity.
  - cbn [parse_rules] in H. destruct (parse_rule tb l) as [r|] eqn:Er; try discriminate. cbn [res_bind] in H.
    destruct (parse_rules tb ls) as [rs'|]; try discriminate. inversion H; subst rs.
    cbn [forallb]. rewrite (parse_rule_image tb l r Hl Er), (IH rs' eq_refl). reflexivity.
Qed.

(** ------------------------------------------------------------------
    Where the first decision comes from. *)
(* applies, decides: Model/GwRoute.v *)

Lemma first_decision_spec : forall rules from to a d,
  first_decision rules from to a = Some d <->
  exists pre r post, rules = pre ++ r :: post /\ applies r from to a = true /\ decides r = Some d /\
                     forall r', In r' pre -> applies r' from to a = false \/ decides r' = None.
Proof.
  induction rules as [|r rs IH]; intros from to a d.
  - cbn [first_decision]. split; [discriminate|]. intros (pre & r & post & E & _). destruct pre; discriminate.
  - cbn [first_decision]. fold (applies r from to a). split.
    + destruct (applies r from to a) eqn:Ap.
      * destruct (decides r) as [x|] eqn:Dc.
        -- intros H. exists [], r, rs. repeat split; try assumption.
           ++ unfold decides in *. destruct (r_action r); congruence.
           ++ intros r' [].
        -- intros H. assert (H' : first_decision rs from to a = Some d).
           { unfold decides in Dc. destruct (r_action r); try discriminate; exact H. }
           apply IH in H' as (pre & r0 & post & E & A & D & P). exists (r :: pre), r0, post.
           repeat split; [now rewrite E|assumption|assumption|]. intros r' [<-|Hin]; [now right|now apply P].
      * intros H. apply IH in H as (pre & r0 & post & E & A & D & P). exists (r :: pre), r0, post.
        repeat split; [now rewrite E|assumption|assumption|]. intros r' [<-|Hin]; [now left|now apply P].
    + intros (pre & r0 & post & E & A & D & P). destruct pre as [|x pre].
      * cbn [app] in E. inversion E; subst r0 post. rewrite A. unfold decides in D.
        destruct (r_action r); congruence.
      * cbn [app] in E. inversion E; subst x rs.
        assert (T : first_decision (pre ++ r0 :: post) from to a = Some d).
        { apply IH. exists pre, r0, post. repeat split; try assumption. intros r' Hin. apply P. now right. }
        destruct (P r (or_introl eq_refl)) as [Ap|Dc].
        -- now rewrite Ap.
        -- destruct (applies r from to a); [|exact T]. unfold decides in Dc.
           destruct (r_action r); try discriminate; exact T.
Qed.

(** ------------------------------------------------------------------
    The oracles of [check] hold on the model's own observations. *)
Lemma list_opt_n_eqb_refl l : list_opt_n_eqb l l = true.
Proof.
  apply list_eqb_eq; [|reflexivity]. intros x y. unfold opt_n_eqb.
  apply (option_eqb_eq N.eqb). intros; apply N.eqb_eq.
Qed.
Lemma gw_bools_eqb_refl l : bools_eqb l l = true.
Proof. apply list_eqb_eq; [intros x y; apply Bool.eqb_true_iff|reflexivity]. Qed.

Lemma route_oracle_model chains ops ps :
  route_oracle chains ops ps (snd (route_model chains ops ps)) = true.
Proof.
  unfold route_oracle, route_model. destruct (apply_ops (new_table chains) ops) as [t oks]. cbn [fst snd].
  destruct (distinct_prefixes t) eqn:D; [|reflexivity].
  replace (List.map (spec_route_pkt t) ps) with (List.map (route_pkt t) ps); [apply list_opt_n_eqb_refl|].
  apply map_ext. intros k. now apply route_pkt_spec.
Qed.

Lemma fwd_oracle_model chains ops rs : fwd_oracle chains ops rs (fwd_model chains ops rs) = true.
Proof.
  unfold fwd_oracle, fwd_model. destruct (apply_ops (new_table chains) ops) as [t oks]. cbn [fst].
  destruct (distinct_prefixes t) eqn:D; [|reflexivity].
  replace (List.map (spec_forward t) rs) with (List.map (forward t) rs); [apply list_opt_n_eqb_refl|].
  apply map_ext. intros k. now apply forward_spec.
Qed.

Lemma match_oracle_model p from to pref addrs :
  match_oracle p from to pref addrs (List.map (match_set p from to pref) addrs) = true.
Proof.
  unfold match_oracle.
  replace (List.map (spec_match p from to pref) addrs) with (List.map (match_set p from to pref) addrs);
    [apply gw_bools_eqb_refl|].
  apply map_ext. intros a. apply match_set_spec.
Qed.

Definition res_opt {A} (r : res A) : option A := match r with Ok x => Some x | _ => None end.

Lemma roundtrip_oracle_model tb p s :
  tb_ok tb = true -> forallb image_rule (p_rules p) = true -> marshal tb p = Some s ->
  roundtrip_oracle p (res_opt (unmarshal tb s)) = true.
Proof.
  intros OK Im M. destruct (marshal_unmarshal tb p s OK Im M) as (rs & U & S).
  rewrite U. exact S.
Qed.
