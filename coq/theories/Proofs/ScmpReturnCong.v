(** C10, part 2: what a router does NOT look at.  [Router.process_scion] reads
    the source ISD-AS of a packet only to compare it with its own, and the
    router-alert flags of hop fields only in the two alert handlers.  [phi s' g]
    replaces the source ISD-AS by [s'] and rewrites hop field [k] by [g k]
    (which may change the flag and reserved bits only); every step of the fast
    path other than the alert handlers commutes with it, and with [g] the identity
    the whole of [process_scion] and the network walk do.

    Used for: the reply of a router in the middle of a path (its source ISD-AS is
    not the first AS of the reversed path — C02's theorem is about packets whose
    source is), and traceroute requests (packets of a path with one flag set). *)
From Coq Require Import List NArith Bool Arith Lia.
From Scion Require Import Lib.Check Model.Router Model.Network Proofs.Router Proofs.RouterPass.
Import ListNotations.
Import Router Network.
Local Open Scope N_scope.

Fixpoint mapi_from {A} (g : nat -> A -> A) (k : nat) (l : list A) : list A :=
  match l with [] => [] | x :: r => g k x :: mapi_from g (S k) r end.
Definition mapi {A} (g : nat -> A -> A) (l : list A) : list A := mapi_from g 0 l.

Lemma nth_error_mapi_from {A} (g : nat -> A -> A) l : forall k i,
  nth_error (mapi_from g k l) i = option_map (g (k + i)%nat) (nth_error l i).
Proof.
  induction l as [|x l IH]; intros k i; [destruct i; reflexivity|].
  destruct i as [|i]; cbn [mapi_from nth_error option_map].
  - now rewrite Nat.add_0_r.
  - rewrite IH. now rewrite Nat.add_succ_r.
Qed.

Lemma nth_error_mapi {A} (g : nat -> A -> A) l i :
  nth_error (mapi g l) i = option_map (g i) (nth_error l i).
Proof. apply (nth_error_mapi_from g l 0 i). Qed.

Lemma mapi_from_length {A} (g : nat -> A -> A) l : forall k, length (mapi_from g k l) = length l.
Proof. induction l as [|x l IH]; intros k; cbn [mapi_from length]; auto. Qed.

Lemma mapi_length {A} (g : nat -> A -> A) l : length (mapi g l) = length l.
Proof. apply mapi_from_length. Qed.

Lemma mapi_from_id {A} (l : list A) : forall k, mapi_from (fun _ x => x) k l = l.
Proof. induction l as [|x l IH]; intros k; cbn [mapi_from]; [reflexivity|now rewrite IH]. Qed.

Lemma mapi_id {A} (l : list A) : mapi (fun _ x => x) l = l.
Proof. apply mapi_from_id. Qed.

Section Cong.
Variable s' : N.
Variable g : nat -> hop -> hop.

(** [g] leaves the values a router verifies and routes by untouched *)
Definition keeps : Prop :=
  forall k h, h_exp (g k h) = h_exp h /\ h_in (g k h) = h_in h /\ h_eg (g k h) = h_eg h /\
              h_mac (g k h) = h_mac h.
Hypothesis Hk : keeps.

Definition phi (q : pkt) : pkt :=
  mkPkt (p_dst_ia q) s' (p_dst_type q) (p_src_type q) (p_dst_raw q) (p_src_raw q)
        (p_pay_len q) (p_pay_actual q) (p_l4_port q) (p_curr_inf q) (p_curr_hf q)
        (p_seg0 q) (p_seg1 q) (p_seg2 q) (p_meta_rsv q) (p_infos q) (mapi g (p_hops q)).

Definition cur (q : pkt) : nat := N.to_nat (p_curr_hf q).

Definition Phi (s : st) : st :=
  mkSt (phi (s_p s)) (g (cur (s_p s)) (s_hop s)) (s_inf s) (s_peer s) (s_xover s) (s_eg s).

Definition phi_res (r : result) : result :=
  match r with
  | Forward e o d => Forward e (phi o) d
  | SlowPath rq e o => SlowPath rq e (phi o)
  | x => x
  end.

Definition phi_out (o : outcome) : outcome :=
  match o with Ok s => Ok (Phi s) | Stop r => Stop (phi_res r) end.

Lemma phi_bind o f f' : (forall s, f' (Phi s) = phi_out (f s)) ->
  bind (phi_out o) f' = phi_out (bind o f).
Proof. intros H. destruct o as [s|r]; cbn [phi_out bind]; [apply H|reflexivity]. Qed.

(** functions of the meta header *)
Lemma phi_num_hops q : num_hops (phi q) = num_hops q. Proof. reflexivity. Qed.
Lemma phi_num_inf q : num_inf (phi q) = num_inf q. Proof. reflexivity. Qed.
Lemma phi_seglen_ok q : seglen_ok (phi q) = seglen_ok q. Proof. reflexivity. Qed.
Lemma phi_inf_index q x : inf_index_for_hf (phi q) x = inf_index_for_hf q x. Proof. reflexivity. Qed.
Lemma phi_is_xover q : is_xover (phi q) = is_xover q. Proof. reflexivity. Qed.
Lemma phi_hop_ptr q : hop_ptr (phi q) = hop_ptr q. Proof. reflexivity. Qed.
Lemma phi_inf_ptr q : inf_ptr (phi q) = inf_ptr q. Proof. reflexivity. Qed.
Lemma phi_with_infos q l : phi (with_infos q l) = with_infos (phi q) l. Proof. reflexivity. Qed.
Lemma phi_with_meta q a b c : phi (with_meta q a b c) = with_meta (phi q) a b c. Proof. reflexivity. Qed.
Lemma phi_inc_path q : phi (inc_path q) = inc_path (phi q). Proof. reflexivity. Qed.

Lemma nthN_phi_hops q k : nthN (p_hops (phi q)) k = option_map (g (N.to_nat k)) (nthN (p_hops q) k).
Proof. unfold nthN, phi. cbn [p_hops]. apply nth_error_mapi. Qed.

Lemma well_formed_phi q : well_formed (phi q) = well_formed q.
Proof. unfold well_formed, phi. cbn [p_infos p_hops]. now rewrite mapi_length. Qed.

Section Steps.
Variable macq : N -> N -> N -> N -> N -> option (list N).
Variable c : cfg.
Variable now : N.
Variable ing : ingress.

Lemma parse_path_phi q : parse_path (phi q) = phi_out (parse_path q).
Proof.
  unfold parse_path. rewrite phi_seglen_ok, phi_num_hops, well_formed_phi.
  destruct (negb (seglen_ok q) || (MaxHops <? num_hops q)); [reflexivity|].
  destruct (negb (well_formed q)); [reflexivity|].
  rewrite nthN_phi_hops. change (p_curr_hf (phi q)) with (p_curr_hf q).
  destruct (nthN (p_hops q) (p_curr_hf q)) as [h|]; cbn [option_map]; [|reflexivity].
  change (p_infos (phi q)) with (p_infos q). change (p_curr_inf (phi q)) with (p_curr_inf q).
  destruct (nthN (p_infos q) (p_curr_inf q)) as [i|]; [|reflexivity].
  change (p_seg0 (phi q)) with (p_seg0 q). change (p_seg1 (phi q)) with (p_seg1 q).
  change (p_seg2 (phi q)) with (p_seg2 q). rewrite phi_inf_index.
  destruct (negb (i_peer i) && _); [reflexivity|].
  destruct (negb _); reflexivity.
Qed.

Lemma determine_peer_phi s : determine_peer (Phi s) = phi_out (determine_peer s).
Proof.
  unfold determine_peer, Phi. cbn [s_p s_inf s_hop s_peer s_xover s_eg].
  destruct (negb (i_peer (s_inf s))); [reflexivity|].
  change (p_seg0 (phi (s_p s))) with (p_seg0 (s_p s)). change (p_seg1 (phi (s_p s))) with (p_seg1 (s_p s)).
  change (p_seg2 (phi (s_p s))) with (p_seg2 (s_p s)). change (p_curr_hf (phi (s_p s))) with (p_curr_hf (s_p s)).
  destruct (p_seg0 (s_p s) =? 0); [reflexivity|]. destruct (p_seg1 (s_p s) =? 0); [reflexivity|].
  destruct (negb (p_seg2 (s_p s) =? 0)); reflexivity.
Qed.

Lemma slow_phi ty code ptr s : slow ty code ptr (Phi s) = phi_out (slow ty code ptr s).
Proof. reflexivity. Qed.

Lemma expiry_phi s : validate_hop_expiry now (Phi s) = phi_out (validate_hop_expiry now s).
Proof.
  unfold validate_hop_expiry, expired. cbn [Phi s_inf s_hop s_p].
  destruct (Hk (cur (s_p s)) (s_hop s)) as (E & _). rewrite E.
  destruct (_ <? now); [apply slow_phi|reflexivity].
Qed.

Lemma ingress_id_phi s : validate_ingress_id ing (Phi s) = phi_out (validate_ingress_id ing s).
Proof.
  unfold validate_ingress_id. cbn [Phi s_inf s_hop s_p].
  destruct (Hk (cur (s_p s)) (s_hop s)) as (_ & I & G & _). rewrite I, G.
  destruct (negb (from0 ing) && _); [apply slow_phi|reflexivity].
Qed.

Lemma pkt_len_phi s : validate_pkt_len (Phi s) = phi_out (validate_pkt_len s).
Proof.
  unfold validate_pkt_len. cbn [Phi s_p].
  change (p_pay_len (phi (s_p s))) with (p_pay_len (s_p s)).
  change (p_pay_actual (phi (s_p s))) with (p_pay_actual (s_p s)).
  destruct (_ =? _); [reflexivity|apply slow_phi].
Qed.

Lemma ingress_interface_phi s : ingress_interface (Phi s) = ingress_interface s.
Proof.
  unfold ingress_interface. cbn [Phi s_p s_peer s_inf s_hop].
  change (is_first_hop_after_xover (phi (s_p s))) with (is_first_hop_after_xover (s_p s)).
  destruct (negb (s_peer s) && is_first_hop_after_xover (s_p s)).
  - change (p_infos (phi (s_p s))) with (p_infos (s_p s)).
    change (p_curr_inf (phi (s_p s))) with (p_curr_inf (s_p s)).
    change (p_curr_hf (phi (s_p s))) with (p_curr_hf (s_p s)).
    rewrite nthN_phi_hops.
    destruct (nthN (p_infos (s_p s)) (p_curr_inf (s_p s) - 1)) as [i|]; [|reflexivity].
    destruct (nthN (p_hops (s_p s)) (p_curr_hf (s_p s) - 1)) as [h|]; cbn [option_map]; [|reflexivity].
    destruct (Hk (N.to_nat (p_curr_hf (s_p s) - 1)) h) as (_ & I & G & _). now rewrite I, G.
  - destruct (Hk (cur (s_p s)) (s_hop s)) as (_ & I & G & _). now rewrite I, G.
Qed.

Lemma transit_phi s :
  validate_transit_underlay_src c ing (Phi s) = phi_out (validate_transit_underlay_src c ing s).
Proof.
  unfold validate_transit_underlay_src. rewrite ingress_interface_phi.
  change (is_first_hop (s_p (Phi s))) with (is_first_hop (s_p s)).
  destruct (is_first_hop (s_p s) || negb (from0 ing)); [reflexivity|].
  destruct (ingress_interface s) as [id|]; [|reflexivity].
  destruct (get_if c id) as [f|]; [|reflexivity].
  destruct (_ && _); reflexivity.
Qed.

(** the source ISD-AS: either the new one is local exactly if the old one is, or the packet
    comes from inside the AS, is not at its first hop, and its source host address is one the
    router accepts *)
Definition src_host_good (q : pkt) : bool :=
  match parse_host (p_src_type q) (p_src_raw q) with
  | HBad => false
  | HSvc _ => true
  | HIP ip => negb (is_4in6 ip)
  end.

Definition src_cond (q : pkt) : Prop :=
  (p_src_ia q =? c_ia c) = (s' =? c_ia c) \/
  (from0 ing = true /\ is_first_hop q = false /\ src_host_good q = true).

Lemma src_dst_phi s : src_cond (s_p s) ->
  validate_src_dst_ia c ing (Phi s) = phi_out (validate_src_dst_ia c ing s).
Proof.
  intros H. unfold validate_src_dst_ia, resp_invalid_src_ia, resp_invalid_dst_ia. cbn [Phi s_p].
  change (p_src_ia (phi (s_p s))) with s'. change (p_dst_ia (phi (s_p s))) with (p_dst_ia (s_p s)).
  change (is_first_hop (phi (s_p s))) with (is_first_hop (s_p s)).
  change (is_last_hop (phi (s_p s))) with (is_last_hop (s_p s)).
  destruct H as [E|(F0 & NF & _)].
  - rewrite <- E.
    destruct (from0 ing).
    + destruct (is_first_hop (s_p s) && negb (p_src_ia (s_p s) =? c_ia c)); [apply slow_phi|].
      destruct (p_dst_ia (s_p s) =? c_ia c); [apply slow_phi|reflexivity].
    + destruct (p_src_ia (s_p s) =? c_ia c); [apply slow_phi|].
      destruct (negb _); [apply slow_phi|reflexivity].
  - rewrite F0, NF. cbn [andb].
    destruct (p_dst_ia (s_p s) =? c_ia c); [apply slow_phi|reflexivity].
Qed.

Lemma src_host_phi s : src_cond (s_p s) ->
  (src_host_good (s_p s) = true \/ (p_src_ia (s_p s) =? c_ia c) = false /\ (s' =? c_ia c) = false) ->
  validate_src_host c (Phi s) = phi_out (validate_src_host c s).
Proof.
  intros _ H. unfold validate_src_host. cbn [Phi s_p].
  change (p_src_ia (phi (s_p s))) with s'.
  change (p_src_type (phi (s_p s))) with (p_src_type (s_p s)).
  change (p_src_raw (phi (s_p s))) with (p_src_raw (s_p s)).
  destruct H as [G|[E1 E2]].
  - unfold src_host_good in G.
    destruct (parse_host (p_src_type (s_p s)) (p_src_raw (s_p s))) as [ip|v|]; [| |discriminate].
    + apply negb_true_iff in G. rewrite G.
      destruct (negb (s' =? c_ia c)), (negb (p_src_ia (s_p s) =? c_ia c)); reflexivity.
    + destruct (negb (s' =? c_ia c)), (negb (p_src_ia (s_p s) =? c_ia c)); reflexivity.
  - rewrite E1, E2. reflexivity.
Qed.

Lemma store_inf_phi s i : store_inf (Phi s) i = Phi (store_inf s i).
Proof. reflexivity. Qed.

Lemma upd_segid_phi i k h : upd_segid i (g k h) = upd_segid i h.
Proof. unfold upd_segid. destruct (Hk k h) as (_ & _ & _ & M). now rewrite M. Qed.

Lemma update_phi s :
  update_noncons_ingress_segid ing (Phi s) = phi_out (update_noncons_ingress_segid ing s).
Proof.
  unfold update_noncons_ingress_segid. cbn [Phi s_inf s_hop s_peer].
  destruct (negb (i_consdir (s_inf s)) && negb (from0 ing) && negb (s_peer s)); [|reflexivity].
  rewrite upd_segid_phi. reflexivity.
Qed.

Lemma verify_mac_phi s : verify_current_mac macq (Phi s) = phi_out (verify_current_mac macq s).
Proof.
  unfold verify_current_mac, mac_of. cbn [Phi s_inf s_hop].
  destruct (Hk (cur (s_p s)) (s_hop s)) as (E & I & G & M). rewrite E, I, G, M.
  destruct (macq _ _ _ _ _) as [m|]; [|reflexivity].
  destruct (list_eqb N.eqb (h_mac (s_hop s)) m); [reflexivity|apply slow_phi].
Qed.

Lemma resolve_inbound_phi s : resolve_inbound c (Phi s) = phi_res (resolve_inbound c s).
Proof.
  unfold resolve_inbound. cbn [Phi s_p s_eg].
  change (p_dst_type (phi (s_p s))) with (p_dst_type (s_p s)).
  change (p_dst_raw (phi (s_p s))) with (p_dst_raw (s_p s)).
  change (p_l4_port (phi (s_p s))) with (p_l4_port (s_p s)).
  destruct (parse_host _ _) as [ip|v|]; [| |reflexivity].
  - destruct (p_l4_port (s_p s)); [|reflexivity]. destruct (_ || _); reflexivity.
  - destruct (lookup_svc _ _); reflexivity.
Qed.

Lemma do_xover_phi s : do_xover (Phi s) = phi_out (do_xover s).
Proof.
  unfold do_xover. cbn [Phi s_p s_peer s_eg]. rewrite <- phi_inc_path.
  rewrite nthN_phi_hops. change (p_infos (phi (inc_path (s_p s)))) with (p_infos (inc_path (s_p s))).
  change (p_curr_hf (phi (inc_path (s_p s)))) with (p_curr_hf (inc_path (s_p s))).
  change (p_curr_inf (phi (inc_path (s_p s)))) with (p_curr_inf (inc_path (s_p s))).
  destruct (nthN (p_hops (inc_path (s_p s))) (p_curr_hf (inc_path (s_p s)))) as [h|]; cbn [option_map]; [|reflexivity].
  destruct (nthN (p_infos (inc_path (s_p s))) (p_curr_inf (inc_path (s_p s)))) as [i|]; reflexivity.
Qed.

Lemma xover_part_phi s : xover_part macq now (Phi s) = phi_out (xover_part macq now s).
Proof.
  unfold xover_part. cbn [Phi s_p s_peer]. rewrite phi_is_xover.
  destruct (is_xover (s_p s) && negb (s_peer s)); [|reflexivity].
  change (mkSt (phi (s_p s)) (g (cur (s_p s)) (s_hop s)) (s_inf s) (s_peer s) (s_xover s) (s_eg s)) with (Phi s).
  rewrite do_xover_phi.
  rewrite (phi_bind (do_xover s) (validate_hop_expiry now) (validate_hop_expiry now) expiry_phi).
  apply phi_bind. apply verify_mac_phi.
Qed.

Lemma set_egress_phi s : set_egress (Phi s) = phi_out (set_egress s).
Proof.
  unfold set_egress, egress_interface. cbn [Phi s_p s_hop s_inf s_peer s_xover phi_out].
  destruct (Hk (cur (s_p s)) (s_hop s)) as (_ & I & G & _). now rewrite I, G.
Qed.

Lemma egress_id_phi s : validate_egress_id c ing (Phi s) = phi_out (validate_egress_id c ing s).
Proof.
  unfold validate_egress_id. cbn [Phi s_eg s_xover s_inf].
  destruct (validate_egress _ _ _ _); try reflexivity; apply slow_phi.
Qed.

Lemma egress_up_phi s : validate_egress_up c (Phi s) = phi_out (validate_egress_up c s).
Proof.
  unfold validate_egress_up, egress_if. cbn [Phi s_eg].
  destruct (if_up _); [reflexivity|]. destruct (scope_eqb _ _); apply slow_phi.
Qed.

Lemma finish_phi s : finish c (Phi s) = phi_res (finish c s).
Proof.
  unfold finish, egress_if. change (s_eg (Phi s)) with (s_eg s).
  destruct (scope_eqb _ _); [|reflexivity].
  unfold process_egress.
  change (s_inf (Phi s)) with (s_inf s). change (s_peer (Phi s)) with (s_peer s).
  change (s_hop (Phi s)) with (g (cur (s_p s)) (s_hop s)). rewrite upd_segid_phi.
  destruct (i_consdir (s_inf s) && negb (s_peer s)).
  - rewrite store_inf_phi. generalize (store_inf s (upd_segid (s_inf s) (s_hop s))). intros s1.
    change (s_p (Phi s1)) with (phi (s_p s1)). change (s_eg (Phi s1)) with (s_eg s1).
    rewrite phi_num_hops. change (p_curr_hf (phi (s_p s1))) with (p_curr_hf (s_p s1)).
    destruct (_ <=? _); reflexivity.
  - change (s_p (Phi s)) with (phi (s_p s)). change (s_eg (Phi s)) with (s_eg s).
    rewrite phi_num_hops. change (p_curr_hf (phi (s_p s))) with (p_curr_hf (s_p s)).
    destruct (_ <=? _); reflexivity.
Qed.

(** ** the ingress half up to (excluding) the ingress alert handler *)
Definition ingress_pre (q : pkt) : outcome :=
  parse_path q >>= determine_peer >>= validate_hop_expiry now >>= validate_ingress_id ing >>=
  validate_pkt_len >>= validate_transit_underlay_src c ing >>= validate_src_dst_ia c ing >>=
  validate_src_host c >>= update_noncons_ingress_segid ing >>= verify_current_mac macq.

Lemma ingress_part_pre q : ingress_part macq c now ing q = (ingress_pre q >>= handle_ingress_router_alert ing).
Proof. reflexivity. Qed.

(** the packet of the state does not change before the SegID update *)
Lemma bind_inv o f s : bind o f = Ok s -> exists s0, o = Ok s0 /\ f s0 = Ok s.
Proof. destruct o as [s0|r]; cbn [bind]; [eauto|discriminate]. Qed.

Definition src_ok (q : pkt) : Prop :=
  src_cond q /\
  (src_host_good q = true \/ (p_src_ia q =? c_ia c) = false /\ (s' =? c_ia c) = false).

Lemma ingress_pre_phi q : src_ok q -> ingress_pre (phi q) = phi_out (ingress_pre q).
Proof.
  intros [SC SH]. unfold ingress_pre.
  (* the states before the source checks carry the packet [q] itself *)
  assert (P6 : forall s, (parse_path q >>= determine_peer >>= validate_hop_expiry now >>=
                          validate_ingress_id ing >>= validate_pkt_len >>=
                          validate_transit_underlay_src c ing) = Ok s -> s_p s = q).
  { intros s H.
    apply bind_inv in H as (s5 & H & E6). apply bind_inv in H as (s4 & H & E5).
    apply bind_inv in H as (s3 & H & E4). apply bind_inv in H as (s2 & H & E3).
    apply bind_inv in H as (s1 & H & E2).
    destruct (parse_path_ok _ _ H) as (X1 & _).
    assert (S1 : s_p s1 = q) by (rewrite X1; reflexivity).
    assert (S2 : s_p s2 = q).
    { destruct (determine_peer_ok _ _ E2) as [X|[_ X]]; rewrite X; [cbn [s_p]; exact S1|exact S1]. }
    destruct (validate_hop_expiry_ok _ _ _ E3) as [X3 _].
    destruct (validate_ingress_id_ok _ _ _ E4) as [X4 _].
    destruct (validate_pkt_len_ok _ _ E5) as [X5 _].
    destruct (validate_transit_ok _ _ _ _ E6) as [X6 _].
    rewrite X6, X5, X4, X3. exact S2. }
  set (o6 := parse_path q >>= determine_peer >>= validate_hop_expiry now >>=
             validate_ingress_id ing >>= validate_pkt_len >>= validate_transit_underlay_src c ing) in *.
  assert (E6 : (parse_path (phi q) >>= determine_peer >>= validate_hop_expiry now >>=
                validate_ingress_id ing >>= validate_pkt_len >>= validate_transit_underlay_src c ing) = phi_out o6).
  { unfold o6. rewrite parse_path_phi.
    rewrite (phi_bind _ determine_peer determine_peer determine_peer_phi).
    rewrite (phi_bind _ _ _ expiry_phi). rewrite (phi_bind _ _ _ ingress_id_phi).
    rewrite (phi_bind _ _ _ pkt_len_phi). rewrite (phi_bind _ _ _ transit_phi). reflexivity. }
  rewrite E6.
  destruct o6 as [s6|r6] eqn:O6; [|reflexivity].
  pose proof (P6 s6 eq_refl) as S6.
  cbn [phi_out bind].
  rewrite src_dst_phi by (rewrite S6; exact SC).
  destruct (validate_src_dst_ia c ing s6) as [s7|r7] eqn:E7; [|reflexivity].
  assert (S7 : s_p s7 = q).
  { destruct (validate_src_dst_ia_ok _ _ _ _ E7) as [X7 _]. rewrite X7. exact S6. }
  cbn [phi_out bind].
  rewrite src_host_phi by (rewrite S7; assumption).
  destruct (validate_src_host c s7) as [s8|r8]; [|reflexivity].
  cbn [phi_out bind]. rewrite update_phi.
  destruct (update_noncons_ingress_segid ing s8) as [s9|r9]; [|reflexivity].
  cbn [phi_out bind]. apply verify_mac_phi.
Qed.

(** ** the egress half up to (excluding) the egress alert handler, and after it *)
Definition egress_pre (s : st) : outcome :=
  xover_part macq now s >>= set_egress >>= validate_egress_id c ing.

Lemma egress_part_pre s :
  egress_part macq c now ing s =
  (egress_pre s >>= handle_egress_router_alert c >>= validate_egress_up c).
Proof. reflexivity. Qed.

Lemma egress_pre_phi s : egress_pre (Phi s) = phi_out (egress_pre s).
Proof.
  unfold egress_pre. rewrite xover_part_phi.
  rewrite (phi_bind _ _ _ set_egress_phi). apply phi_bind. apply egress_id_phi.
Qed.

End Steps.
End Cong.

(** * Only the source ISD-AS changes: the whole fast path commutes *)
Definition set_src (s' : N) (q : pkt) : pkt :=
  mkPkt (p_dst_ia q) s' (p_dst_type q) (p_src_type q) (p_dst_raw q) (p_src_raw q)
        (p_pay_len q) (p_pay_actual q) (p_l4_port q) (p_curr_inf q) (p_curr_hf q)
        (p_seg0 q) (p_seg1 q) (p_seg2 q) (p_meta_rsv q) (p_infos q) (p_hops q).

Definition src_res (s' : N) (r : result) : result :=
  match r with
  | Forward e o d => Forward e (set_src s' o) d
  | SlowPath rq e o => SlowPath rq e (set_src s' o)
  | x => x
  end.

Section Src.
Variable s' : N.
Definition gid : nat -> hop -> hop := fun _ h => h.

Lemma keeps_gid : keeps gid.
Proof. intros k h. repeat split. Qed.

Lemma phi_gid q : phi s' gid q = set_src s' q.
Proof. unfold phi, set_src, gid. now rewrite mapi_id. Qed.

Lemma phi_res_gid r : phi_res s' gid r = src_res s' r.
Proof. destruct r; cbn [phi_res src_res]; try reflexivity; now rewrite phi_gid. Qed.

Variable macq : N -> N -> N -> N -> N -> option (list N).
Variable c : cfg.
Variable now : N.
Variable ing : ingress.

Notation Phi := (Phi s' gid).
Notation phi_out := (phi_out s' gid).

Lemma store_hop_gid s h : store_hop (Phi s) h = Phi (store_hop s h).
Proof.
  unfold store_hop, Phi, phi, gid, set_nthN. cbn [s_p s_hop s_inf s_peer s_xover s_eg with_hops p_hops p_curr_hf
    p_dst_ia p_src_ia p_dst_type p_src_type p_dst_raw p_src_raw p_pay_len p_pay_actual p_l4_port p_curr_inf
    p_seg0 p_seg1 p_seg2 p_meta_rsv p_infos].
  now rewrite !mapi_id.
Qed.

Lemma ingress_alert_gid s :
  handle_ingress_router_alert ing (Phi s) = phi_out (handle_ingress_router_alert ing s).
Proof.
  unfold handle_ingress_router_alert.
  change (s_inf (Phi s)) with (s_inf s). change (s_hop (Phi s)) with (s_hop s).
  destruct (from0 ing); [reflexivity|].
  destruct (negb _); [reflexivity|].
  rewrite store_hop_gid. reflexivity.
Qed.

Lemma egress_alert_gid s :
  handle_egress_router_alert c (Phi s) = phi_out (handle_egress_router_alert c s).
Proof.
  unfold handle_egress_router_alert, egress_if.
  change (s_inf (Phi s)) with (s_inf s). change (s_hop (Phi s)) with (s_hop s).
  change (s_eg (Phi s)) with (s_eg s).
  destruct (negb _); [reflexivity|]. destruct (negb _); [reflexivity|].
  rewrite store_hop_gid. reflexivity.
Qed.

Theorem process_src q : src_ok s' c ing q ->
  process_scion macq c now ing (set_src s' q) = src_res s' (process_scion macq c now ing q).
Proof.
  intros SO. rewrite <- phi_gid, <- phi_res_gid. unfold process_scion.
  rewrite !ingress_part_pre.
  rewrite (ingress_pre_phi s' gid keeps_gid macq c now ing q SO).
  rewrite (phi_bind s' gid _ _ _ ingress_alert_gid).
  destruct (ingress_pre macq c now ing q >>= handle_ingress_router_alert ing) as [s|r]; [|reflexivity].
  unfold ScmpReturnCong.phi_out at 1. cbn [s_p ScmpReturnCong.Phi].
  change (p_dst_ia (phi s' gid q)) with (p_dst_ia q).
  destruct (p_dst_ia q =? c_ia c).
  - apply resolve_inbound_phi.
  - rewrite !egress_part_pre.
    rewrite (egress_pre_phi s' gid keeps_gid).
    rewrite (phi_bind s' gid _ _ _ egress_alert_gid).
    rewrite (phi_bind s' gid _ _ _ (egress_up_phi s' gid c)).
    destruct (egress_pre macq c now ing s >>= handle_egress_router_alert c >>= validate_egress_up c) as [s2|r2];
      [|reflexivity].
    apply (finish_phi s' gid keeps_gid).
Qed.

End Src.
