(** The router model never answers [MacMiss] when the MAC function is total, and
    never [BadInput] on a well-formed record: every packet is either forwarded
    or stopped (discarded / handed to the slow path).  Used by the tamper
    argument of C04. *)
From Coq Require Import List NArith Bool Lia.
From Scion Require Import Lib.Check Model.Router Proofs.Router.
Import ListNotations.
Import Router.
Local Open Scope N_scope.

Definition okres (r : result) : Prop :=
  match r with MacMiss | BadInput => False | _ => True end.

Ltac stop_ok H :=
  repeat (match type of H with
          | context [match ?x with _ => _ end] => destruct x
          | context [if ?b then _ else _] => destruct b
          end);
  try discriminate; inversion H; subst; exact I.

Section Stops.
Variable macq : N -> N -> N -> N -> N -> option (list N).
Hypothesis Htotal : forall a b c d e, macq a b c d e <> None.
Variable c : cfg.
Variable now : N.
Variable ing : ingress.

Lemma parse_path_sok p r : well_formed p = true -> parse_path p = Stop r -> okres r.
Proof. intros W H. unfold parse_path in H. rewrite W in H. cbn [negb] in H. stop_ok H. Qed.
Lemma determine_peer_sok s r : determine_peer s = Stop r -> okres r.
Proof. intros H. unfold determine_peer in H. stop_ok H. Qed.
Lemma expiry_sok s r : validate_hop_expiry now s = Stop r -> okres r.
Proof. intros H. unfold validate_hop_expiry, slow in H. stop_ok H. Qed.
Lemma ingress_id_sok s r : validate_ingress_id ing s = Stop r -> okres r.
Proof. intros H. unfold validate_ingress_id, slow in H. stop_ok H. Qed.
Lemma pkt_len_sok s r : validate_pkt_len s = Stop r -> okres r.
Proof. intros H. unfold validate_pkt_len, slow in H. stop_ok H. Qed.
Lemma transit_sok s r : validate_transit_underlay_src c ing s = Stop r -> okres r.
Proof. intros H. unfold validate_transit_underlay_src in H. stop_ok H. Qed.
Lemma src_dst_sok s r : validate_src_dst_ia c ing s = Stop r -> okres r.
Proof.
  intros H. unfold validate_src_dst_ia, resp_invalid_src_ia, resp_invalid_dst_ia, slow in H. stop_ok H.
Qed.
Lemma src_host_sok s r : validate_src_host c s = Stop r -> okres r.
Proof. intros H. unfold validate_src_host, slow in H. stop_ok H. Qed.
Lemma upd_sok s r : update_noncons_ingress_segid ing s = Stop r -> okres r.
Proof. intros H. unfold update_noncons_ingress_segid in H. stop_ok H. Qed.
Lemma mac_sok s r : verify_current_mac macq s = Stop r -> okres r.
Proof.
  intros H. unfold verify_current_mac, mac_of, slow in H.
  destruct (macq (i_segid (s_inf s)) (i_ts (s_inf s)) (h_exp (s_hop s)) (h_in (s_hop s)) (h_eg (s_hop s))) eqn:E.
  - stop_ok H.
  - exfalso. now apply (Htotal _ _ _ _ _ E).
Qed.
Lemma ialert_sok s r : handle_ingress_router_alert ing s = Stop r -> okres r.
Proof. intros H. unfold handle_ingress_router_alert in H. stop_ok H. Qed.

Lemma ingress_part_sok p r : well_formed p = true -> ingress_part macq c now ing p = Stop r -> okres r.
Proof.
  intros W H. unfold ingress_part in H.
  repeat (apply bind_stop in H as [H | (s0 & H & H')];
          [| first [ eapply ialert_sok; eassumption
                   | eapply mac_sok; eassumption
                   | eapply upd_sok; eassumption
                   | eapply src_host_sok; eassumption
                   | eapply src_dst_sok; eassumption
                   | eapply transit_sok; eassumption
                   | eapply pkt_len_sok; eassumption
                   | eapply ingress_id_sok; eassumption
                   | eapply expiry_sok; eassumption
                   | eapply determine_peer_sok; eassumption ]]).
  eapply parse_path_sok; eassumption.
Qed.

Lemma do_xover_sok s r : do_xover s = Stop r -> okres r.
Proof. intros H. unfold do_xover in H. stop_ok H. Qed.
Lemma xover_part_sok s r : xover_part macq now s = Stop r -> okres r.
Proof.
  unfold xover_part. destruct (_ && _); [|discriminate]. intros H.
  apply bind_stop in H as [H | (s2 & H & H')]; [| eapply mac_sok; eassumption].
  apply bind_stop in H as [H | (s1 & H & H')]; [| eapply expiry_sok; eassumption].
  eapply do_xover_sok; eassumption.
Qed.
Lemma egress_id_sok s r : validate_egress_id c ing s = Stop r -> okres r.
Proof. intros H. unfold validate_egress_id, slow in H. stop_ok H. Qed.
Lemma ealert_sok s r : handle_egress_router_alert c s = Stop r -> okres r.
Proof. intros H. unfold handle_egress_router_alert in H. stop_ok H. Qed.
Lemma egress_up_sok s r : validate_egress_up c s = Stop r -> okres r.
Proof. intros H. unfold validate_egress_up, slow in H. stop_ok H. Qed.

Lemma egress_part_sok s r : egress_part macq c now ing s = Stop r -> okres r.
Proof.
  unfold egress_part. intros H.
  apply bind_stop in H as [H | (s0 & H & H')]; [| eapply egress_up_sok; eassumption].
  apply bind_stop in H as [H | (s0 & H & H')]; [| eapply ealert_sok; eassumption].
  apply bind_stop in H as [H | (s0 & H & H')]; [| eapply egress_id_sok; eassumption].
  apply bind_stop in H as [H | (s0 & H & H')]; [| discriminate].
  eapply xover_part_sok; eassumption.
Qed.

Lemma process_sok p : well_formed p = true -> okres (process_scion macq c now ing p).
Proof.
  intros W. unfold process_scion.
  destruct (ingress_part macq c now ing p) as [s|r] eqn:E; [|eapply ingress_part_sok; eassumption].
  destruct (p_dst_ia p =? c_ia c).
  - unfold resolve_inbound.
    repeat (match goal with
            | |- context [match ?x with _ => _ end] => destruct x
            | |- context [if ?b then _ else _] => destruct b
            end); exact I.
  - destruct (egress_part macq c now ing s) as [s'|r] eqn:E2; [|eapply egress_part_sok; eassumption].
    unfold finish, process_egress.
    repeat (match goal with
            | |- context [if ?b then _ else _] => destruct b
            end); exact I.
Qed.

End Stops.
