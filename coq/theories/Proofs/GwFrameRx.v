(** C41 — receiver side on genuine frames: what ProcessCompletePkts, insertFirst,
    tryReassemble and collectAndWrite do with the frames of a genuine stream. *)
From Coq Require Import List Arith NArith Bool Lia.
From Coq Require Import ZifyBool ZifyN ZifyNat.
From Scion Require Import Lib.Bytes Lib.Check Model.GwFrame Proofs.GwFrameSpec Proofs.GwFrameEnc.
Import ListNotations.
Import GwFrame.
Local Open Scope nat_scope.

(** ---------------------------------------------------------------- the packet loop *)

Definition pcp_body (fu : nat) (rest : bytes) (off : nat) (acc : list bytes) (pl : nat) :=
  if Nat.ltb (length rest) pl then (acc, PBreak off pl)
  else pcp_loop fu (skipn pl rest) (off + pl) (acc ++ [firstn pl rest]).

Lemma pcp_loop_S fu b0 tl off acc :
  pcp_loop (S fu) (b0 :: tl) off acc =
  let rest := b0 :: tl in
  if (ver b0 =? 4)%N then
    if Nat.ltb (length rest) 20 then (acc, PEarly)
    else if Nat.ltb (plen4 rest) 20 then (acc, PEarly) else pcp_body fu rest off acc (plen4 rest)
  else if (ver b0 =? 6)%N then
    if Nat.ltb (length rest) 40 then (acc, PEarly) else pcp_body fu rest off acc (plen6 rest)
  else (acc, PEarly).
Proof. reflexivity. Qed.

Lemma ltb_false a b : b <= a -> Nat.ltb a b = false.
Proof. intros H. apply Nat.ltb_ge. exact H. Qed.
Lemma ltb_true a b : a < b -> Nat.ltb a b = true.
Proof. intros H. apply Nat.ltb_lt. exact H. Qed.

(** one complete valid packet at the front is sent and skipped *)
Lemma pcp_loop_step p rest' fu off acc : valid_pkt p = true ->
  pcp_loop (S fu) (p ++ rest') off acc = pcp_loop fu rest' (off + length p) (acc ++ [p]).
Proof.
  intros V. destruct (valid_pkt_inv p V) as (b0 & t & Ep & Hc).
  assert (E : p ++ rest' = b0 :: (t ++ rest')) by (now rewrite Ep).
  rewrite E, pcp_loop_S. cbv zeta. rewrite <- E.
  assert (L : length (p ++ rest') = length p + length rest') by apply app_length.
  destruct Hc as [(V4 & L20 & PL)|(V4 & V6 & L40 & PL)].
  - apply N.eqb_eq in V4. rewrite V4.
    assert (P4 : plen4 (p ++ rest') = length p).
    { unfold plen4. rewrite u16at_app by lia. exact PL. }
    rewrite P4, (ltb_false _ 20) by lia. rewrite (ltb_false (length p) 20) by lia.
    unfold pcp_body. rewrite ltb_false by lia.
    now rewrite skipn_app_exact, firstn_app_exact.
  - apply N.eqb_neq in V4. apply N.eqb_eq in V6. rewrite V4, V6.
    assert (P6 : plen6 (p ++ rest') = length p).
    { unfold plen6. rewrite u16at_app by lia. exact PL. }
    rewrite P6, (ltb_false _ 40) by lia.
    unfold pcp_body. rewrite ltb_false by lia.
    now rewrite skipn_app_exact, firstn_app_exact.
Qed.

Lemma pcp_loop_pkts : forall pkts fu off acc tail,
  Forall (fun p => valid_pkt p = true) pkts ->
  pcp_loop (length pkts + fu) (concat pkts ++ tail) off acc =
  pcp_loop fu tail (off + length (concat pkts)) (acc ++ pkts).
Proof.
  induction pkts as [|p pkts IH]; intros fu off acc tail V.
  - cbn. now rewrite Nat.add_0_r, app_nil_r.
  - inversion V as [|? ? Vp Vt]; subst. cbn [concat length plus].
    rewrite <- app_assoc, pcp_loop_step by exact Vp.
    rewrite IH by exact Vt. rewrite app_length, <- app_assoc. f_equal. lia.
Qed.

(** the beginning of a valid packet that is not complete stops the loop *)
Lemma pcp_loop_frag Q k fu off acc : valid_pkt Q = true -> 40 <= k < length Q ->
  pcp_loop (S fu) (firstn k Q) off acc = (acc, PBreak off (length Q)).
Proof.
  intros V Hk. destruct (valid_pkt_inv Q V) as (b0 & t & Ep & Hc).
  assert (Lk : length (firstn k Q) = k) by (rewrite firstn_length; lia).
  assert (E : firstn k Q = b0 :: firstn (k - 1) t).
  { rewrite Ep. destruct k as [|k]; [lia|]. cbn [firstn]. now replace (S k - 1) with k by lia. }
  rewrite E, pcp_loop_S. cbv zeta. rewrite <- E.
  destruct Hc as [(V4 & L20 & PL)|(V4 & V6 & L40 & PL)].
  - apply N.eqb_eq in V4. rewrite V4.
    assert (P4 : plen4 (firstn k Q) = length Q) by (unfold plen4; rewrite u16at_firstn by lia; exact PL).
    rewrite P4, Lk, (ltb_false k 20), (ltb_false (length Q) 20) by lia.
    unfold pcp_body. now rewrite Lk, ltb_true by lia.
  - apply N.eqb_neq in V4. apply N.eqb_eq in V6. rewrite V4, V6.
    assert (P6 : plen6 (firstn k Q) = length Q) by (unfold plen6; rewrite u16at_firstn by lia; exact PL).
    rewrite P6, Lk, (ltb_false k 40) by lia.
    unfold pcp_body. now rewrite Lk, ltb_true by lia.
Qed.

Lemma pcp_loop_fuel_pkts pkts tail off :
  Forall (fun p => valid_pkt p = true) pkts ->
  pcp_loop (S (length (concat pkts ++ tail))) (concat pkts ++ tail) off [] =
  pcp_loop (S (length (concat pkts ++ tail)) - length pkts) tail (off + length (concat pkts)) pkts.
Proof.
  intros V.
  assert (L : length pkts <= length (concat pkts)).
  { clear tail off. induction V as [|p pkts Vp Vt IH]; cbn [concat length]; [lia|].
    rewrite app_length. apply valid_pkt_len in Vp. lia. }
  rewrite app_length.
  replace (S (length (concat pkts) + length tail))
    with (length pkts + (S (length (concat pkts) + length tail) - length pkts)) at 1 by lia.
  now rewrite pcp_loop_pkts by exact V.
Qed.

(** ---------------------------------------------------------------- frames as records *)

Section Rx.
Variable room : nat.
Hypothesis Hroom : (N.of_nat room <= 65519)%N.
Variables sess stream : N.

Notation gbytes := (g_bytes room sess stream).
Notation gwf := (g_wf room).

Definition gfb (g : gframe) (fragN cp : bool) (frag0 : nat) (frag0P : bool) (pl : nat) : fbuf :=
  {| fb_raw := gbytes g; fb_seq := g_seq g; fb_index := g_index g; fb_frag0 := frag0;
     fb_frag0P := frag0P; fb_fragNP := fragN; fb_cpP := cp; fb_pktlen := pl |}.

Definition seq_ok (g : gframe) : Prop := (g_seq g < 18446744073709551616)%N.

Definition fr (g : gframe) : fbuf := fresh (gbytes g).

Lemma g_index_lt g : gwf g -> (g_index g < 65536)%N.
Proof.
  destruct g as [s P n|s cin pkts cout]; cbn [g_index g_wf]; [unfold no_index; lia|].
  intros (_ & _ & _ & L). rewrite app_length in L.
  destruct pkts; destruct cout; unfold no_index; lia.
Qed.

Lemma fr_eq g : gwf g -> seq_ok g ->
  fr g = gfb g (g_index g =? 0)%N (g_index g =? no_index)%N 0 false 0.
Proof.
  intros W S. unfold fr, fresh, gfb, g_bytes.
  rewrite header_index by (now apply g_index_lt). rewrite header_seq by exact S. reflexivity.
Qed.

Lemma gbytes_length g : length (gbytes g) = 16 + length (g_payload room g).
Proof. unfold g_bytes. now rewrite app_length, header_length. Qed.

Lemma gbytes_payload g : skipn hdr_len (gbytes g) = g_payload room g.
Proof. apply header_payload. Qed.

(** the index of a general frame that has a packet start *)
Lemma g_index_gen s cin pkts cout : gwf (GGen s cin pkts cout) ->
  (pkts <> [] \/ cout <> None) ->
  g_index (GGen s cin pkts cout) = N.of_nat (length (pre_of cin)) /\
  (g_index (GGen s cin pkts cout) =? no_index)%N = false.
Proof.
  intros (_ & _ & _ & L) H. rewrite app_length in L. cbn [g_index].
  destruct pkts; destruct cout; try (destruct H; congruence);
    (split; [reflexivity|apply N.eqb_neq; unfold no_index; lia]).
Qed.

Definition frag_off (cin : carry) (pkts : list bytes) : nat :=
  16 + length (pre_of cin ++ concat pkts).

(** ProcessCompletePkts on a frame without packet start: nothing happens *)
Lemma pcp_noindex g a cp : (g_index g =? no_index)%N = true ->
  pcp (gfb g a cp 0 false 0) = (gfb g a true 0 false 0, []).
Proof.
  intros H. unfold pcp. cbn [gfb fb_cpP fb_index]. rewrite H, orb_true_r. reflexivity.
Qed.

(** ProcessCompletePkts on a general frame with a packet start *)
Lemma pcp_gen s cin pkts cout a :
  let g := GGen s cin pkts cout in
  gwf g -> (pkts <> [] \/ cout <> None) ->
  pcp (gfb g a false 0 false 0) =
  (match cout with
   | None => gfb g a true 0 true 0
   | Some (Q, _) => gfb g a true (frag_off cin pkts) false (length Q)
   end, pkts).
Proof.
  intros g W H. destruct (g_index_gen _ _ _ _ W H) as [Ei En].
  destruct W as (_ & Vp & Hc & L).
  unfold pcp. cbn [gfb fb_cpP fb_index fb_raw fb_seq fb_frag0 fb_frag0P fb_fragNP fb_pktlen].
  fold g in En, Ei. rewrite En. cbn [orb]. rewrite Ei, Nat2N.id.
  assert (Er : skipn (length (pre_of cin) + hdr_len) (gbytes g) = concat pkts ++ post_of cout).
  { unfold g_bytes. cbn [g_payload g]. rewrite app_assoc.
    apply skipn_app_exact. rewrite app_length, header_length. unfold hdr_len. lia. }
  rewrite Er. rewrite pcp_loop_fuel_pkts by exact Vp.
  assert (Lp : length pkts <= length (concat pkts)).
  { clear -Vp. induction Vp as [|p pkts Vp Vt IH]; cbn [concat length]; [lia|].
    rewrite app_length. apply valid_pkt_len in Vp. lia. }
  rewrite app_length.
  replace (S (length (concat pkts) + length (post_of cout)) - length pkts)
    with (S (length (concat pkts) + length (post_of cout) - length pkts)) by lia.
  destruct cout as [[Q k]|]; cbn [post_of].
  - destruct Hc as [VQ Hk]. rewrite pcp_loop_frag by assumption.
    assert (E0 : length (pre_of cin) + hdr_len + length (concat pkts) = frag_off cin pkts)
      by (unfold frag_off, hdr_len; rewrite app_length; lia).
    rewrite E0. unfold gfb. rewrite Ei. unfold frag_off. cbn [plus Nat.eqb]. reflexivity.
  - cbn [pcp_loop]. unfold gfb. rewrite Ei. reflexivity.
Qed.

Lemma processed_gfb g a cp f0 f0P pl :
  processed (gfb g a cp f0 f0P pl) = cp && a && (Nat.eqb f0 0 || f0P).
Proof. reflexivity. Qed.

Lemma set_fragN_gfb g a cp f0 f0P pl : set_fragN (gfb g a cp f0 f0P pl) = gfb g true cp f0 f0P pl.
Proof. reflexivity. Qed.

Lemma set_processed_gfb g a cp f0 f0P pl :
  set_processed (gfb g a cp f0 f0P pl) = gfb g true true f0 true pl.
Proof. reflexivity. Qed.

(** the first frame of a reassembly list: a packet start that is not complete *)
Definition pending (b : bool) (g : gframe) : fbuf :=
  match g with
  | GGen s cin pkts (Some (Q, k)) => gfb g b true (frag_off cin pkts) false (length Q)
  | _ => gfb g b true 0 false 0
  end.

(** ---------------------------------------------------------------- insertFirst *)

Lemma insert_first_mid s P n : gwf (GMid s P n) -> seq_ok (GMid s P n) ->
  insert_first (fr (GMid s P n)) = ([], []).
Proof.
  intros W S. rewrite fr_eq by assumption. unfold insert_first.
  rewrite pcp_noindex by reflexivity. reflexivity.
Qed.

Lemma insert_first_gen s cin pkts cout :
  let g := GGen s cin pkts cout in
  gwf g -> seq_ok g ->
  insert_first (fr g) =
  (match cout with None => [] | Some _ => [pending (g_index g =? 0)%N g] end, pkts).
Proof.
  intros g W S. rewrite fr_eq by assumption. unfold insert_first.
  destruct (N.eqb_spec (g_index g) no_index) as [E|E].
  - assert (pkts = [] /\ cout = None) as [-> ->].
    { destruct pkts as [|p pk].
      - destruct cout as [c|]; [|auto]. exfalso.
        destruct (g_index_gen s cin [] (Some c) W) as [_ X]; [right; discriminate|].
        apply N.eqb_neq in X. apply X. exact E.
      - exfalso. destruct (g_index_gen s cin (p :: pk) cout W) as [_ X]; [left; discriminate|].
        apply N.eqb_neq in X. apply X. exact E. }
    rewrite pcp_noindex by (cbn; reflexivity). reflexivity.
  - assert (H : pkts <> [] \/ cout <> None).
    { destruct pkts; [|left; discriminate]. destruct cout; [right; discriminate|].
      exfalso. apply E. reflexivity. }
    rewrite (pcp_gen s cin pkts cout _ W H).
    destruct cout as [[Q k]|]; cbn [gfb fb_frag0 Nat.eqb frag_off pending]; reflexivity.
Qed.

(** ---------------------------------------------------------------- tryReassemble *)

Notation mids := (mk_mids room).

(** facts about a continuation frame *)
Lemma mid_flen s Q n : n + room < length Q ->
  flen (fr (GMid s Q n)) - hdr_len = room /\ length (g_payload room (GMid s Q n)) = room.
Proof.
  intros H. unfold flen, fr, fresh. cbn [fb_raw]. rewrite gbytes_length.
  cbn [g_payload]. rewrite firstn_length, skipn_length. unfold hdr_len. lia.
Qed.

Lemma fr_index g : gwf g -> fb_index (fr g) = g_index g.
Proof. intros W. unfold fr, fresh. cbn [fb_index]. apply header_index. now apply g_index_lt. Qed.

Lemma scan_mids m : forall s Q n tl,
  (forall i, i < m -> n + i * room + room < length Q) ->
  scan n (length Q) (map fr (mids s Q n m) ++ tl) = scan (n + m * room) (length Q) tl.
Proof.
  induction m as [|m IH]; intros s Q n tl H.
  - cbn. now replace (n + 0) with n by lia.
  - cbn [mk_mids map app scan].
    pose proof (H 0 ltac:(lia)) as H0. cbn in H0. rewrite Nat.add_0_r in H0.
    destruct (mid_flen s Q n H0) as [Ef _]. rewrite Ef.
    assert (Ei : fb_index (fr (GMid s Q n)) = no_index).
    { unfold fr, fresh. cbn [fb_index]. unfold g_bytes. cbn [g_index]. apply header_index. reflexivity. }
    rewrite Ei. cbn [N.eqb negb].
    replace (Nat.leb (length Q) (n + room)) with false by (symmetry; apply Nat.leb_gt; lia).
    change (no_index =? no_index)%N with true. cbn [negb].
    rewrite IH.
    + f_equal. lia.
    + intros i Hi. specialize (H (S i) ltac:(lia)). lia.
Qed.

(** the collecting loop over the continuation frames *)
Lemma collect_mids m : forall s Q n tl buf,
  (forall i, i < m -> n + i * room + room < length Q) ->
  buf = firstn n Q -> n < length Q ->
  collect buf (length Q) (map fr (mids s Q n m) ++ tl) =
  let '(b, vis, unvis) := collect (firstn (n + m * room) Q) (length Q) tl in
  (b, map set_fragN (map fr (mids s Q n m)) ++ vis, unvis).
Proof.
  induction m as [|m IH]; intros s Q n tl buf H Eb Hn.
  - cbn [mk_mids map app]. replace (n + 0 * room) with n by lia. subst buf.
    destruct (collect (firstn n Q) (length Q) tl) as [[b vis] unvis]. reflexivity.
  - cbn [mk_mids map app collect].
    pose proof (H 0 ltac:(lia)) as H0. cbn in H0. rewrite Nat.add_0_r in H0.
    assert (Lb : length buf = n) by (subst buf; rewrite firstn_length; lia).
    rewrite Lb, ltb_true by lia.
    destruct (mid_flen s Q n H0) as [Ef Lp].
    assert (Efl : flen (fr (GMid s Q n)) = 16 + room).
    { unfold flen, fr, fresh. cbn [fb_raw]. rewrite gbytes_length, Lp. reflexivity. }
    rewrite Efl. unfold hdr_len.
    replace (Nat.min (length Q - n + 16) (16 + room) - 16) with room by lia.
    assert (Eraw : skipn 16 (fb_raw (fr (GMid s Q n))) = firstn room (skipn n Q)).
    { unfold fr, fresh. cbn [fb_raw]. apply gbytes_payload. }
    rewrite Eraw. rewrite firstn_all2 by (rewrite firstn_length, skipn_length; lia).
    assert (Eb' : buf ++ firstn room (skipn n Q) = firstn (n + room) Q).
    { subst buf. rewrite <- (firstn_skipn n (firstn (n + room) Q)).
      rewrite firstn_firstn. replace (Nat.min n (n + room)) with n by lia. f_equal.
      rewrite skipn_firstn_comm. f_equal. lia. }
    rewrite (IH (s + 1)%N Q (n + room) tl _).
    + replace (n + room + m * room) with (n + S m * room) by lia.
      destruct (collect (firstn (n + S m * room) Q) (length Q) tl) as [[b vis] unvis]. reflexivity.
    + intros i Hi. specialize (H (S i) ltac:(lia)). lia.
    + exact Eb'.
    + lia.
Qed.

Lemma pcp_last_cons2 v w t :
  pcp_last (v :: w :: t) = let '(t', out) := pcp_last (w :: t) in (v :: t', out).
Proof. reflexivity. Qed.

Lemma pcp_last_snoc vis x : pcp_last (vis ++ [x]) = (vis ++ [fst (pcp x)], snd (pcp x)).
Proof.
  induction vis as [|v vis IH]; cbn [app].
  - cbn [pcp_last]. now destruct (pcp x).
  - destruct vis as [|w vis].
    + cbn [app] in *. rewrite pcp_last_cons2, IH. reflexivity.
    + cbn [app] in *. rewrite pcp_last_cons2, IH. reflexivity.
Qed.

Lemma processed_mid s Q n : processed (set_fragN (fr (GMid s Q n))) = true.
Proof.
  unfold processed, set_fragN, fr, fresh. cbn [fb_cpP fb_fragNP fb_frag0 fb_frag0P].
  unfold g_bytes. cbn [g_index]. rewrite header_index by reflexivity. reflexivity.
Qed.

Lemma remove_processed_mids m : forall s Q n tl,
  remove_processed (map set_fragN (map fr (mids s Q n m)) ++ tl) = remove_processed tl.
Proof.
  induction m as [|m IH]; intros s Q n tl; [reflexivity|].
  cbn [mk_mids map app remove_processed filter]. rewrite processed_mid. cbn [negb].
  apply IH.
Qed.

Lemma try_reassemble_cons start rest : rest <> [] ->
  try_reassemble (start :: rest) =
  if Nat.eqb (fb_frag0 start) 0 then ([], [])
  else match scan (flen start - fb_frag0 start) (fb_pktlen start) rest with
       | SCan => collect_and_write start rest
       | SFraming => ([last (start :: rest) start], [])
       | SNotYet => (start :: rest, [])
       end.
Proof. destruct rest; [congruence|reflexivity]. Qed.

Lemma insert_cons first rest f :
  insert (first :: rest) f =
  let es := first :: rest in
  if (fb_seq f <? fb_seq first)%N then (es, [])
  else if ((fb_seq first <=? fb_seq f) && (fb_seq f <=? fb_seq (last es first)))%N then (es, [])
  else if (fb_seq (last es first) + 1 <? fb_seq f)%N then insert_first f
  else if Nat.eqb (length es) rlist_cap then insert_first f
  else try_reassemble (es ++ [f]).
Proof. reflexivity. Qed.

Section Seg.
Variables (b : bool) (s0 : N) (cin0 : carry) (pkts0 : list bytes) (Q : bytes) (k m : nat).
Let g0 := GGen s0 cin0 pkts0 (Some (Q, k)).
Hypothesis W0 : gwf g0.
Hypothesis Hm : forall i, i < m -> k + i * room + room < length Q.
Let es := pending b g0 :: map fr (mids (s0 + 1)%N Q k m).
Let n' := k + m * room.

Lemma seg_k : valid_pkt Q = true /\ 40 <= k < length Q.
Proof. destruct W0 as (_ & _ & H & _). exact H. Qed.

Lemma seg_n' : n' < length Q.
Proof.
  unfold n'. destruct m as [|m']; [destruct seg_k; lia|].
  specialize (Hm m' ltac:(lia)). lia.
Qed.

Lemma seg_have : flen (pending b g0) - fb_frag0 (pending b g0) = k.
Proof.
  unfold flen, g0. cbn [pending gfb fb_raw fb_frag0]. rewrite gbytes_length. cbn [g_payload post_of].
  unfold frag_off. rewrite !app_length, firstn_length. destruct seg_k. lia.
Qed.

Lemma seg_buf0 : skipn (fb_frag0 (pending b g0)) (fb_raw (pending b g0)) = firstn k Q.
Proof.
  unfold g0. cbn [pending gfb fb_raw fb_frag0]. unfold g_bytes, frag_off. cbn [g_payload post_of].
  rewrite (app_assoc (pre_of cin0)), (app_assoc (header _ _ _ _)).
  apply skipn_app_exact. rewrite !app_length, header_length. lia.
Qed.

(** a further pure continuation frame: nothing can be reassembled yet *)
Lemma push_mid sn : gwf (GMid sn Q n') ->
  try_reassemble (es ++ [fr (GMid sn Q n')]) = (es ++ [fr (GMid sn Q n')], []).
Proof.
  intros Wn. unfold es. cbn [app].
  rewrite try_reassemble_cons by (intros E; apply app_eq_nil in E as [_ E]; discriminate).
  replace (Nat.eqb (fb_frag0 (pending b g0)) 0) with false by reflexivity.
  rewrite seg_have. replace (fb_pktlen (pending b g0)) with (length Q) by reflexivity.
  rewrite scan_mids by exact Hm. fold n'. cbn [scan].
  destruct Wn as (_ & _ & Ln).
  destruct (mid_flen sn Q n' Ln) as [Ef _]. rewrite Ef.
  assert (Ei : fb_index (fr (GMid sn Q n')) = no_index).
  { unfold fr, fresh. cbn [fb_index]. unfold g_bytes. cbn [g_index]. apply header_index. reflexivity. }
  rewrite Ei. replace (Nat.leb (length Q) (n' + room)) with false by (symmetry; apply Nat.leb_gt; lia).
  reflexivity.
Qed.

(** the frame in which the packet under way ends *)
Lemma push_gen sn pkts cout :
  let g := GGen sn (Some (Q, n')) pkts cout in
  gwf g -> seq_ok g ->
  try_reassemble (es ++ [fr g]) =
  (match cout with None => [] | Some _ => [pending true g] end, Q :: pkts).
Proof.
  intros g Wg Sg. unfold es. cbn [app].
  rewrite try_reassemble_cons by (intros E; apply app_eq_nil in E as [_ E]; discriminate).
  replace (Nat.eqb (fb_frag0 (pending b g0)) 0) with false by reflexivity.
  rewrite seg_have. replace (fb_pktlen (pending b g0)) with (length Q) by reflexivity.
  rewrite scan_mids by exact Hm. fold n'. cbn [scan].
  pose proof seg_n' as Ln.
  assert (Lpay : length Q - n' <= length (g_payload room g)).
  { unfold g. cbn [g_payload pre_of]. rewrite app_length, skipn_length. lia. }
  assert (Efl : flen (fr g) = 16 + length (g_payload room g)).
  { unfold flen, fr, fresh. cbn [fb_raw]. apply gbytes_length. }
  rewrite Efl. unfold hdr_len.
  replace (Nat.leb (length Q) (n' + (16 + length (g_payload room g) - 16))) with true
    by (symmetry; apply Nat.leb_le; lia).
  (* collectAndWrite *)
  unfold collect_and_write. rewrite seg_buf0.
  replace (fb_pktlen (pending b g0)) with (length Q) by reflexivity.
  destruct seg_k as [VQ Hk].
  rewrite (collect_mids m (s0 + 1)%N Q k [fr g] (firstn k Q) Hm eq_refl) by lia.
  fold n'. cbn [collect].
  rewrite firstn_length. replace (Nat.min n' (length Q)) with n' by lia.
  rewrite ltb_true by lia. rewrite Efl. unfold hdr_len.
  replace (Nat.min (length Q - n' + 16) (16 + length (g_payload room g)) - 16)
    with (length Q - n') by lia.
  assert (Eraw : skipn 16 (fb_raw (fr g)) = g_payload room g).
  { unfold fr, fresh. cbn [fb_raw]. apply gbytes_payload. }
  rewrite Eraw.
  assert (EQ : firstn n' Q ++ firstn (length Q - n') (g_payload room g) = Q).
  { unfold g. cbn [g_payload pre_of]. rewrite firstn_app_exact by (rewrite skipn_length; lia).
    apply firstn_skipn. }
  rewrite EQ. rewrite Nat.eqb_refl.
  rewrite pcp_last_snoc. cbv beta iota.
  rewrite (fr_eq g Wg Sg), set_fragN_gfb.
  replace (set_processed (pending b g0)) with (gfb g0 true true (frag_off cin0 pkts0) true (length Q))
    by reflexivity.
  rewrite app_nil_r.
  assert (Estart : forall l, remove_processed (gfb g0 true true (frag_off cin0 pkts0) true (length Q) :: l)
                             = remove_processed l).
  { intros l. unfold remove_processed. cbn [filter]. rewrite processed_gfb.
    cbn [andb]. rewrite orb_true_r. reflexivity. }
  rewrite Estart, remove_processed_mids.
  destruct (N.eqb_spec (g_index g) no_index) as [E|E].
  - assert (pkts = [] /\ cout = None) as [-> ->].
    { destruct pkts as [|p pk].
      - destruct cout as [c|]; [|auto]. exfalso.
        destruct (g_index_gen sn (Some (Q, n')) [] (Some c) Wg) as [_ X]; [right; discriminate|].
        apply N.eqb_neq in X. apply X. exact E.
      - exfalso. destruct (g_index_gen sn (Some (Q, n')) (p :: pk) cout Wg) as [_ X]; [left; discriminate|].
        apply N.eqb_neq in X. apply X. exact E. }
    rewrite pcp_noindex by (cbn; reflexivity). cbn [fst snd].
    unfold remove_processed. cbn [filter]. rewrite processed_gfb. cbn. reflexivity.
  - assert (H : pkts <> [] \/ cout <> None).
    { destruct pkts; [|left; discriminate]. destruct cout; [right; discriminate|].
      exfalso. apply E. reflexivity. }
    pose proof (pcp_gen sn (Some (Q, n')) pkts cout true Wg H) as Ep. cbv zeta in Ep. fold g in Ep.
    rewrite Ep. cbn [fst snd].
    unfold remove_processed. cbn [filter].
    destruct cout as [[Q' k']|]; rewrite processed_gfb; cbn [andb orb negb Nat.eqb frag_off plus app pending];
      reflexivity.
Qed.

Lemma seg_last_seq : (s0 + N.of_nat m < 18446744073709551616)%N ->
  fb_seq (last es (pending b g0)) = (s0 + N.of_nat m)%N.
Proof.
  unfold es. clear Hm. destruct m as [|m']; intros Hs.
  - cbn. lia.
  - rewrite mk_mids_snoc, map_app. cbn [map].
    change (pending b g0 :: ?l ++ [?y]) with ((pending b g0 :: l) ++ [y]).
    rewrite last_last. unfold fr, fresh. cbn [fb_seq]. unfold g_bytes. cbn [g_seq].
    rewrite header_seq by lia. lia.
Qed.

Lemma insert_seg f : (s0 + N.of_nat m < 18446744073709551616)%N ->
  insert es f =
  if (fb_seq f <? s0)%N then (es, [])
  else if ((s0 <=? fb_seq f) && (fb_seq f <=? s0 + N.of_nat m))%N then (es, [])
  else if (s0 + N.of_nat m + 1 <? fb_seq f)%N then insert_first f
  else if Nat.eqb (S m) rlist_cap then insert_first f
  else try_reassemble (es ++ [f]).
Proof.
  intros Hs. unfold es at 1. rewrite insert_cons. cbv zeta. fold es. rewrite (seg_last_seq Hs).
  replace (fb_seq (pending b g0)) with s0 by reflexivity.
  replace (length es) with (S m) by (unfold es; cbn [length]; now rewrite map_length, mk_mids_length).
  reflexivity.
Qed.

End Seg.

End Rx.
