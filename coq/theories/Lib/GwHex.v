(** Compact literals for byte strings in generated case files (C41): a byte string
    is written as its length and a list of primitive 63-bit integers holding seven
    bytes each (big-endian; the last word holds the remaining 1..7 bytes).  Only the
    generated [cases_*.v] files use this; models and proofs do not depend on it. *)
From Coq Require Import List NArith ZArith Uint63.
From Scion Require Import Lib.Bytes.
Import ListNotations.
Local Open Scope N_scope.

(** the [k] low-order bytes of [w], most significant first, in front of [acc] *)
Fixpoint word_bytes (k : nat) (w : N) (acc : bytes) : bytes :=
  match k with
  | O => acc
  | S k' => word_bytes k' (N.shiftr w 8) (N.land w 255 :: acc)
  end.

Fixpoint hx_go (len : N) (ws : list int) : bytes :=
  match ws with
  | [] => []
  | w :: t =>
    let k := N.min len 7 in
    word_bytes (N.to_nat k) (Z.to_N (Uint63.to_Z w)) [] ++ hx_go (len - k) t
  end.

Definition hx (len : N) (ws : list int) : bytes := hx_go len ws.
Arguments hx _%N _%uint63.

(** [HX len [w1; ..; wk]] — the words are read in [uint63_scope] whatever scopes are open *)
Notation "'HX' n [ x ; .. ; y ]" :=
  (hx n (cons x%uint63 .. (cons y%uint63 nil) ..)) (at level 0, n at level 0).
