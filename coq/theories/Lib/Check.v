(** Shared glue for the correspondence check: every property's model exposes
    [check : case -> N] where a case carries the input *and* the observation made
    on the implementation.  Codes:
      0  model = implementation and the property oracle holds on the implementation's observation
      1  model <> implementation, oracle holds        (correspondence broken, no failing input)
      2  model = implementation, oracle fails         (the faithful model violates the property)
      3  model <> implementation, oracle fails        (the implementation violates the property) *)
From Coq Require Import List NArith Bool.
Import ListNotations.

Module Check.

Definition verdict (agree oracle : bool) : N :=
  match agree, oracle with
  | true, true => 0 | false, true => 1 | true, false => 2 | false, false => 3
  end%N.

Definition run {C : Type} (f : C -> N) (cs : list (N * C)) : list (N * N) :=
  filter (fun p => negb (N.eqb (snd p) 0))
         (map (fun p => (fst p, f (snd p))) cs).

Definition diag {C T : Type} (f : C -> N) (g : C -> T) (cs : list (N * C)) : list (N * T) :=
  map (fun p => (fst p, g (snd p)))
      (filter (fun p => negb (N.eqb (f (snd p)) 0)) cs).

Lemma run_nil_all {C} (f : C -> N) cs :
  run f cs = [] -> forall i c, In (i, c) cs -> f c = 0%N.
Proof.
  unfold run. induction cs as [|[j d] cs IH]; cbn [map filter fst snd]; intros H i c Hin.
  - destruct Hin.
  - destruct (N.eqb (f d) 0) eqn:E; cbn [negb] in H.
    + destruct Hin as [Heq|Hin].
      * inversion Heq; subst. now apply N.eqb_eq.
      * eapply IH; eauto.
    + discriminate.
Qed.

End Check.

(** Small list/option helpers shared by the models. *)
Definition list_eqb {A} (eqb : A -> A -> bool) : list A -> list A -> bool :=
  fix go l1 l2 := match l1, l2 with
  | [], [] => true
  | x :: t1, y :: t2 => eqb x y && go t1 t2
  | _, _ => false
  end.

Lemma list_eqb_eq {A} (eqb : A -> A -> bool) :
  (forall x y, eqb x y = true <-> x = y) ->
  forall l1 l2, list_eqb eqb l1 l2 = true <-> l1 = l2.
Proof.
  intros H. induction l1 as [|x t IH]; destruct l2 as [|y t2]; cbn; split; intros E;
    try reflexivity; try discriminate.
  - apply andb_true_iff in E as [E1 E2]. apply H in E1. apply IH in E2. now subst.
  - inversion E; subst. apply andb_true_iff; split; [now apply H | now apply IH].
Qed.

Definition option_eqb {A} (eqb : A -> A -> bool) (a b : option A) : bool :=
  match a, b with
  | None, None => true | Some x, Some y => eqb x y | _, _ => false
  end.

Definition bytes_eqb := list_eqb N.eqb.

Lemma bytes_eqb_eq l1 l2 : bytes_eqb l1 l2 = true <-> l1 = l2.
Proof. apply list_eqb_eq. intros; apply N.eqb_eq. Qed.
