(** Only for the generated [cases_*.v] shards of runner c07x (and required, not imported, at the
    very end of Props/C07_bytes.v so that it is built): the existing record-level C07 case terms
    (type [Router.xcase], printed by harness/internal/rtgen) are read as [RouterBytes.case] through
    the coercion [CRec]; the two bidirectionality hints make Coq elaborate the elements of the
    case list against the declared element type, so that the coercion is inserted.  Models,
    proofs and property files do not depend on this file. *)
From Coq Require Import List NArith.
From Scion Require Import Model.Router Model.RouterBytes.
Coercion RouterBytes.CRec : Router.xcase >-> RouterBytes.case.
Global Arguments cons {A}%type & _ _.
Global Arguments pair {A B}%type & _ _.
