(** Regular expressions over an arbitrary alphabet [A] whose leaves are labelled
    with predicates ([sat p a] says symbol [a] satisfies label [p]): a
    denotational language [L], an executable matcher by Brzozowski derivatives,
    and the proof that they agree.  Self-contained (used by C47). *)
From Coq Require Import List Bool.
Import ListNotations.

Section Regex.
Context {A P : Type}.
Variable sat : P -> A -> bool.

Inductive re :=
| Empty | Eps | Leaf (p : P)
| Cat (r s : re) | Alt (r s : re)
| Star (r : re) | Opt (r : re) | Plus (r : re).

(** the words of [r] *)
Fixpoint L (r : re) (w : list A) : Prop :=
  match r with
  | Empty => False
  | Eps => w = []
  | Leaf p => exists a, w = [a] /\ sat p a = true
  | Cat r s => exists u v, w = u ++ v /\ L r u /\ L s v
  | Alt r s => L r w \/ L s w
  | Star r => exists ws, w = concat ws /\ Forall (L r) ws
  | Opt r => w = [] \/ L r w
  | Plus r => exists u ws, w = u ++ concat ws /\ L r u /\ Forall (L r) ws
  end.

Fixpoint nullable (r : re) : bool :=
  match r with
  | Empty => false | Eps => true | Leaf _ => false
  | Cat r s => nullable r && nullable s
  | Alt r s => nullable r || nullable s
  | Star _ => true | Opt _ => true
  | Plus r => nullable r
  end.

(** constructors that absorb Empty / Eps, to keep derivatives small *)
Definition mk_cat (r s : re) : re :=
  match r, s with
  | Empty, _ => Empty
  | _, Empty => Empty
  | Eps, _ => s
  | _, Eps => r
  | _, _ => Cat r s
  end.

Definition mk_alt (r s : re) : re :=
  match r, s with
  | Empty, _ => s
  | _, Empty => r
  | _, _ => Alt r s
  end.

Fixpoint deriv (a : A) (r : re) : re :=
  match r with
  | Empty | Eps => Empty
  | Leaf p => if sat p a then Eps else Empty
  | Cat r s => let d := mk_cat (deriv a r) s in
               if nullable r then mk_alt d (deriv a s) else d
  | Alt r s => mk_alt (deriv a r) (deriv a s)
  | Star r => mk_cat (deriv a r) (Star r)
  | Opt r => deriv a r
  | Plus r => mk_cat (deriv a r) (Star r)
  end.

Definition matches (r : re) (w : list A) : bool :=
  nullable (fold_left (fun r a => deriv a r) w r).

(** ------------------------------------------------------------ proofs *)
Lemma L_mk_cat r s w : L (mk_cat r s) w <-> L (Cat r s) w.
Proof.
  assert (Hl : forall s, L (Cat Empty s) w <-> False) by (intros; cbn; firstorder).
  assert (Hr : forall r, L (Cat r Empty) w <-> False) by (intros; cbn; firstorder).
  assert (He : forall s, L s w <-> L (Cat Eps s) w).
  { intros s0. cbn. split.
    - intros H. exists [], w. auto.
    - intros (u & v & -> & -> & H). exact H. }
  assert (He' : forall r, L r w <-> L (Cat r Eps) w).
  { intros r0. cbn. split.
    - intros H. exists w, []. rewrite app_nil_r. auto.
    - intros (u & v & -> & H & ->). now rewrite app_nil_r. }
  destruct r; destruct s; cbn [mk_cat];
    try (symmetry; apply Hl); try (symmetry; apply Hr);
    try apply He; try apply He'; try reflexivity.
Qed.

Lemma L_mk_alt r s w : L (mk_alt r s) w <-> L (Alt r s) w.
Proof.
  destruct r; destruct s; cbn; tauto.
Qed.

Lemma nullable_L r : nullable r = true <-> L r [].
Proof.
  induction r; cbn [nullable L].
  - split; [discriminate|tauto].
  - tauto.
  - split; [discriminate|]. intros (a & H & _). discriminate.
  - rewrite andb_true_iff, IHr1, IHr2. split.
    + intros [H1 H2]. exists [], []. auto.
    + intros (u & v & E & H1 & H2). symmetry in E. apply app_eq_nil in E. destruct E; subst. auto.
  - rewrite orb_true_iff, IHr1, IHr2. tauto.
  - split; [|reflexivity]. intros _. exists []. auto.
  - tauto.
  - rewrite IHr. split.
    + intros H. exists [], []. auto.
    + intros (u & ws & E & H & _). symmetry in E. apply app_eq_nil in E. destruct E; subst. exact H.
Qed.

(** a non-empty word of r* starts with a non-empty word of r *)
Lemma star_cons r a w :
  (exists ws, a :: w = concat ws /\ Forall (L r) ws) <->
  (exists u v, w = u ++ v /\ L r (a :: u) /\ exists ws, v = concat ws /\ Forall (L r) ws).
Proof.
  split.
  - intros (ws & E & F). induction ws as [|x ws IH]; [discriminate|].
    inversion F as [|? ? Hx Hws]; subst. destruct x as [|b x].
    + apply IH; assumption.
    + cbn in E. injection E as <- ->. exists x, (concat ws). repeat split; eauto.
  - intros (u & v & -> & Hu & ws & -> & F). exists ((a :: u) :: ws). split; [reflexivity|].
    constructor; assumption.
Qed.

Lemma deriv_L a r : forall w, L (deriv a r) w <-> L r (a :: w).
Proof.
  induction r; intros w; cbn [deriv].
  - cbn. tauto.
  - cbn. split; [tauto|discriminate].
  - cbn [L]. destruct (sat p a) eqn:E; cbn [L].
    + split.
      * intros ->. exists a. auto.
      * intros (b & E0 & _). now injection E0.
    + split; [tauto|]. intros (b & E0 & H). injection E0 as Ea Ew. subst. congruence.
  - (* Cat *)
    assert (Hd : L (mk_cat (deriv a r1) r2) w <->
                 exists u v, w = u ++ v /\ L r1 (a :: u) /\ L r2 v).
    { rewrite L_mk_cat. cbn [L]. split.
      - intros (u & v & -> & H1 & H2). exists u, v. rewrite <- IHr1. auto.
      - intros (u & v & -> & H1 & H2). exists u, v. rewrite IHr1. auto. }
    assert (Hc : L (Cat r1 r2) (a :: w) <->
                 (exists u v, w = u ++ v /\ L r1 (a :: u) /\ L r2 v) \/ (L r1 [] /\ L r2 (a :: w))).
    { cbn [L]. split.
      - intros (u & v & E & H1 & H2). destruct u as [|b u].
        + cbn in E. subst v. right. auto.
        + cbn in E. injection E as <- ->. left. eauto.
      - intros [(u & v & -> & H1 & H2)|[H1 H2]].
        + exists (a :: u), v. auto.
        + exists [], (a :: w). auto. }
    rewrite Hc. destruct (nullable r1) eqn:En.
    + rewrite L_mk_alt. cbn [L]. rewrite Hd, IHr2.
      apply nullable_L in En. tauto.
    + rewrite Hd. split; [tauto|]. intros [H|[H _]]; [exact H|].
      apply nullable_L in H. congruence.
  - rewrite L_mk_alt. cbn [L]. rewrite IHr1, IHr2. tauto.
  - (* Star *)
    rewrite L_mk_cat. change (L (Star r) (a :: w)) with (exists ws, a :: w = concat ws /\ Forall (L r) ws).
    rewrite star_cons. cbn [L]. split.
    + intros (u & v & -> & H1 & H2). exists u, v. rewrite <- IHr. auto.
    + intros (u & v & -> & H1 & H2). exists u, v. rewrite IHr. auto.
  - cbn [L]. rewrite IHr. split; [tauto|]. intros [H|H]; [discriminate|exact H].
  - (* Plus *)
    rewrite L_mk_cat. cbn [L]. split.
    + intros (u & v & -> & H1 & ws & -> & F). exists (a :: u), ws. rewrite <- IHr. auto.
    + intros (u & ws & E & H1 & F). destruct u as [|b u].
      * cbn in E.
        destruct (proj1 (star_cons r a w)) as (u' & v' & -> & Hu & Hv); [eauto|].
        exists u', v'. rewrite IHr. auto.
      * cbn in E. injection E as <- ->. exists u, (concat ws). rewrite IHr. eauto.
Qed.

Theorem matches_iff_L r w : matches r w = true <-> L r w.
Proof.
  unfold matches. revert r. induction w as [|a w IH]; intros r; cbn [fold_left].
  - apply nullable_L.
  - rewrite IH. apply deriv_L.
Qed.

End Regex.

Arguments re : clear implicits.
Arguments Empty {P}.
Arguments Eps {P}.
