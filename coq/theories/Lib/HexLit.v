(** Compact byte-string literals for generated case files: [Hx len n] is the
    [len]-byte big-endian string of [n] (written as one hexadecimal numeral),
    [setb l pos v] replaces one byte.  Decoding walks the bits of the numeral
    once (no divisions). *)
From Coq Require Import List NArith.
From Scion Require Import Lib.Bytes.
Import ListNotations.
Local Open Scope N_scope.

(** least significant bit first; [bit] is the weight of the next bit inside the
    current byte [cur]; completed bytes are pushed on [acc] (so the most
    significant byte ends up first) *)
Fixpoint hx_pos (p : positive) (bit cur : N) (acc : bytes) : bytes :=
  match p with
  | xH => (cur + bit) :: acc
  | xO q => if bit =? 128 then hx_pos q 1 0 (cur :: acc) else hx_pos q (bit * 2) cur acc
  | xI q => if bit =? 128 then hx_pos q 1 0 ((cur + bit) :: acc) else hx_pos q (bit * 2) (cur + bit) acc
  end.

Definition Hx (len : nat) (n : N) : bytes :=
  let l := match n with 0 => [] | Npos p => hx_pos p 1 0 [] end in
  repeat 0 (len - length l) ++ l.

Definition setb (l : bytes) (pos : nat) (v : N) : bytes :=
  firstn pos l ++ v :: skipn (S pos) l.

Example Hx_ex : Hx 4 0x000a0bff = [0; 10; 11; 255] /\ Hx 2 0x8001 = [128; 1] /\ Hx 1 0 = [0].
Proof. repeat split; reflexivity. Qed.
Example setb_ex : setb [1; 2; 3] 1 9 = [1; 9; 3].
Proof. reflexivity. Qed.
