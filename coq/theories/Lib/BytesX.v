(** Byte-reader primitives for the header codecs (C18) and their lemmas.
    A decoder result is [Ok v], [Err] (the Go code returns an error) or [Panic]
    (the Go code would index/slice out of range).  Decoders read sequentially
    from the front of the remaining data, exactly like the Go code advances
    [offset]; a read beyond the data is a [Panic], so the explicit length checks
    of the Go code are what keeps [Panic] unreachable. *)
From Coq Require Import List Arith NArith Bool Lia ZifyN ZifyNat ZifyBool.
From Scion Require Import Lib.Bytes.
Import ListNotations.
Local Open Scope N_scope.

Inductive res (A : Type) : Type := Ok (a : A) | Err | Panic.
Arguments Ok {A} a.
Arguments Err {A}.
Arguments Panic {A}.

Definition bind {A B} (r : res A) (f : A -> res B) : res B :=
  match r with Ok a => f a | Err => Err | Panic => Panic end.

Declare Scope res_scope.
Delimit Scope res_scope with res.
Notation "x <- e ;; k" := (bind e (fun x => k))
  (at level 61, e at next level, right associativity) : res_scope.
Notation "' p <- e ;; k" := (bind e (fun x => match x with p => k end))
  (at level 61, p pattern, e at next level, right associativity) : res_scope.

Definition is_ok {A} (r : res A) : bool := match r with Ok _ => true | _ => false end.
Definition is_panic {A} (r : res A) : bool := match r with Panic => true | _ => false end.
Definition res_opt {A} (r : res A) : option A := match r with Ok a => Some a | _ => None end.

(** [data[:k]], [data[k:]] — panics when [k > len(data)] *)
Definition takeP (k : nat) (l : bytes) : res (bytes * bytes) :=
  if Nat.leb k (length l) then Ok (firstn k l, skipn k l) else Panic.

(** big-endian [k]-byte word at the front *)
Definition wordP (k : nat) (l : bytes) : res (N * bytes) :=
  match takeP k l with
  | Ok (a, r) => Ok (unbe a, r)
  | Err => Err
  | Panic => Panic
  end.

(** [copy(buf[:k], src)] into a zeroed buffer: the first [k] bytes of [src], zero padded *)
Definition fit (k : nat) (src : bytes) : bytes :=
  firstn k src ++ repeat 0 (k - length src).

Definition lenN (l : bytes) : N := N.of_nat (length l).

(** ---------------------------------------------------------------- lemmas *)

Lemma wf_bytes_app a b : wf_bytes (a ++ b) <-> wf_bytes a /\ wf_bytes b.
Proof. unfold wf_bytes. apply Forall_app. Qed.

Lemma wf_bytes_firstn k l : wf_bytes l -> wf_bytes (firstn k l).
Proof.
  unfold wf_bytes. rewrite !Forall_forall. intros H x Hx. apply H.
  rewrite <- (firstn_skipn k l). apply in_or_app. now left.
Qed.

Lemma wf_bytes_skipn k l : wf_bytes l -> wf_bytes (skipn k l).
Proof.
  unfold wf_bytes. rewrite !Forall_forall. intros H x Hx. apply H.
  rewrite <- (firstn_skipn k l). apply in_or_app. now right.
Qed.

Lemma wf_bytes_repeat0 k : wf_bytes (repeat 0 k).
Proof. induction k; cbn; constructor; [reflexivity | assumption]. Qed.

Lemma fit_length k s : length (fit k s) = k.
Proof. unfold fit. rewrite app_length, firstn_length, repeat_length. lia. Qed.

Lemma fit_exact k s : length s = k -> fit k s = s.
Proof.
  intros <-. unfold fit. rewrite firstn_all, Nat.sub_diag. cbn. apply app_nil_r.
Qed.

Lemma fit_wf k s : wf_bytes s -> wf_bytes (fit k s).
Proof.
  intros H. unfold fit. apply wf_bytes_app. split.
  - now apply wf_bytes_firstn.
  - apply wf_bytes_repeat0.
Qed.

Lemma takeP_app a r : takeP (length a) (a ++ r) = Ok (a, r).
Proof.
  unfold takeP. rewrite app_length.
  replace (Nat.leb (length a) (length a + length r)) with true
    by (symmetry; apply Nat.leb_le; lia).
  rewrite firstn_app, Nat.sub_diag, firstn_all, firstn_O, app_nil_r.
  rewrite skipn_app, Nat.sub_diag, skipn_all. reflexivity.
Qed.

Lemma takeP_app' k a r : length a = k -> takeP k (a ++ r) = Ok (a, r).
Proof. intros <-. apply takeP_app. Qed.

Lemma takeP_inv k l a r : takeP k l = Ok (a, r) -> l = a ++ r /\ length a = k.
Proof.
  unfold takeP. destruct (Nat.leb k (length l)) eqn:E; [|discriminate].
  intros H. inversion H; subst. apply Nat.leb_le in E. split.
  - symmetry. apply firstn_skipn.
  - rewrite firstn_length. lia.
Qed.

Lemma takeP_not_err k l : takeP k l <> Err.
Proof. unfold takeP. destruct (Nat.leb k (length l)); discriminate. Qed.

Lemma takeP_panic k l : takeP k l = Panic <-> (length l < k)%nat.
Proof.
  unfold takeP. destruct (Nat.leb k (length l)) eqn:E.
  - apply Nat.leb_le in E. split; [discriminate | lia].
  - apply Nat.leb_gt in E. split; [intros _; exact E | reflexivity].
Qed.

Lemma takeP_ok k l : (k <= length l)%nat -> takeP k l = Ok (firstn k l, skipn k l).
Proof. intros H. unfold takeP. now replace (Nat.leb k (length l)) with true by (symmetry; apply Nat.leb_le; exact H). Qed.

Lemma takeP_rest_length k l a r : takeP k l = Ok (a, r) -> length l = (k + length r)%nat.
Proof. intros H. apply takeP_inv in H as [-> <-]. now rewrite app_length. Qed.

Lemma wordP_be k n r : wordP k (be k n ++ r) = Ok (n mod 256 ^ N.of_nat k, r).
Proof. unfold wordP. rewrite (takeP_app' k) by apply be_length. now rewrite unbe_be. Qed.

Lemma wordP_be_small k n r : n < 256 ^ N.of_nat k -> wordP k (be k n ++ r) = Ok (n, r).
Proof. intros H. rewrite wordP_be. now rewrite N.mod_small. Qed.

Lemma wordP_inv k l n r :
  wf_bytes l -> wordP k l = Ok (n, r) ->
  l = be k n ++ r /\ n < 256 ^ N.of_nat k /\ wf_bytes r.
Proof.
  intros W. unfold wordP. destruct (takeP k l) as [[a r']| |] eqn:E; try discriminate.
  intros H. inversion H; subst. apply takeP_inv in E as [-> <-].
  apply wf_bytes_app in W as [Wa Wr]. repeat split.
  - now rewrite be_unbe.
  - now apply unbe_lt.
  - exact Wr.
Qed.

Lemma wordP_not_err k l : wordP k l <> Err.
Proof.
  unfold wordP. pose proof (takeP_not_err k l).
  destruct (takeP k l) as [[a r]| |]; congruence.
Qed.

Lemma wordP_panic k l : wordP k l = Panic <-> (length l < k)%nat.
Proof.
  unfold wordP. pose proof (takeP_panic k l) as P. pose proof (takeP_not_err k l) as Q.
  destruct (takeP k l) as [[a r]| |].
  - split; intros H; [discriminate | apply P in H; discriminate].
  - congruence.
  - split; intros H; [now apply P | reflexivity].
Qed.

Lemma wordP_rest_length k l n r : wordP k l = Ok (n, r) -> length l = (k + length r)%nat.
Proof.
  unfold wordP. destruct (takeP k l) as [[a r']| |] eqn:E; try discriminate.
  intros H. inversion H; subst. eapply takeP_rest_length; eauto.
Qed.

Lemma takeP_wf k l a r : wf_bytes l -> takeP k l = Ok (a, r) -> wf_bytes a /\ wf_bytes r.
Proof. intros W H. apply takeP_inv in H as [-> _]. now apply wf_bytes_app. Qed.

Lemma be_1 n : be 1 n = [n mod 256].
Proof. cbn [be]. now rewrite N.div_1_r. Qed.

Lemma be_lt_wf k n : wf_bytes (be k n).
Proof. apply be_wf. Qed.

(** a word that is the concatenation of two big-endian words *)
Lemma be_app k1 k2 a b :
  b < 256 ^ N.of_nat k2 ->
  be (k1 + k2) (a * 256 ^ N.of_nat k2 + b) = be k1 a ++ be k2 b.
Proof.
  revert a. induction k1 as [|k1 IH]; intros a Hb.
  - cbn [Nat.add be app]. now rewrite be_add_high.
  - cbn [Nat.add be app]. f_equal.
    + rewrite Nat2N.inj_add, N.pow_add_r.
      set (p2 := 256 ^ N.of_nat k2) in *. set (p1 := 256 ^ N.of_nat k1).
      assert (p2 <> 0) by (unfold p2; apply N.pow_nonzero; discriminate).
      assert (p1 <> 0) by (unfold p1; apply N.pow_nonzero; discriminate).
      rewrite (N.mul_comm p1 p2), <- N.div_div by assumption.
      rewrite N.div_add_l by assumption. rewrite (N.div_small b p2 Hb). now rewrite N.add_0_r.
    + now apply IH.
Qed.

Lemma length_lenN l : lenN l = N.of_nat (length l).
Proof. reflexivity. Qed.

Lemma ltb_false a b : (b <= a)%nat -> Nat.ltb a b = false.
Proof. intros. apply Nat.ltb_ge. lia. Qed.
Lemma ltb_true a b : (a < b)%nat -> Nat.ltb a b = true.
Proof. intros. apply Nat.ltb_lt. lia. Qed.

Lemma skipn_app_le {A} k (a b : list A) : (k <= length a)%nat -> skipn k (a ++ b) = skipn k a ++ b.
Proof.
  intros H. rewrite skipn_app. replace (k - length a)%nat with 0%nat by lia. reflexivity.
Qed.

Lemma firstn_app_le {A} k (a b : list A) : (k <= length a)%nat -> firstn k (a ++ b) = firstn k a.
Proof.
  intros H. rewrite firstn_app. replace (k - length a)%nat with 0%nat by lia.
  rewrite firstn_O. apply app_nil_r.
Qed.

Lemma firstn_app_exact {A} k (a b : list A) : length a = k -> firstn k (a ++ b) = a.
Proof. intros <-. rewrite firstn_app, Nat.sub_diag, firstn_all, firstn_O. apply app_nil_r. Qed.

Lemma skipn_app_exact {A} k (a b : list A) : length a = k -> skipn k (a ++ b) = b.
Proof. intros <-. rewrite skipn_app, Nat.sub_diag, skipn_all. reflexivity. Qed.

(** ---------------------------------------------------------------- tactics
    [len_norm]: normalise [length] of concatenations of known-size pieces.
    [inv_rd]: one step of inverting [chain = Ok _] in the goal's premise position:
              the goal has the form [bind (wordP k l) _ = Ok _ -> _] (or takeP).
    [np_rd]: one step of showing [chain <> Panic] from a lower bound on the length. *)
Ltac len_norm :=
  repeat (rewrite ?app_length, ?be_length, ?fit_length, ?firstn_length, ?skipn_length,
                  ?repeat_length in * ); cbn [length] in *.

Ltac inv_word :=
  match goal with
  | W : wf_bytes ?l |- context [bind (wordP ?k ?l) _] =>
    let n := fresh "n" in let r := fresh "r" in let E := fresh "E" in
    let Hn := fresh "Hn" in let W' := fresh "W" in
    destruct (wordP k l) as [[n r]| |] eqn:E; cbn [bind]; try discriminate;
    apply (wordP_inv _ _ _ _ W) in E as (-> & Hn & W')
  end.

Ltac inv_take :=
  match goal with
  | W : wf_bytes ?l |- context [bind (takeP ?k ?l) _] =>
    let a := fresh "a" in let r := fresh "r" in let E := fresh "E" in
    let Ha := fresh "Ha" in let Wa := fresh "Wa" in let W' := fresh "W" in
    destruct (takeP k l) as [[a r]| |] eqn:E; cbn [bind]; try discriminate;
    pose proof (takeP_wf _ _ _ _ W E) as [Wa W'];
    apply takeP_inv in E as (-> & Ha)
  end.

Ltac np_word tac :=
  match goal with
  | |- context [bind (wordP ?k ?l) _] =>
    let n := fresh "n" in let r := fresh "r" in let E := fresh "E" in
    destruct (wordP k l) as [[n r]| |] eqn:E; cbn [bind];
    [ apply wordP_rest_length in E | solve [discriminate | exfalso; eapply wordP_not_err; eassumption] | exfalso; apply wordP_panic in E; tac ]
  end.

Ltac np_take tac :=
  match goal with
  | |- context [bind (takeP ?k ?l) _] =>
    let a := fresh "a" in let r := fresh "r" in let E := fresh "E" in
    destruct (takeP k l) as [[a r]| |] eqn:E; cbn [bind];
    [ pose proof (takeP_rest_length _ _ _ _ E) | solve [discriminate | exfalso; eapply takeP_not_err; eassumption] | exfalso; apply takeP_panic in E; tac ]
  end.
