(** Protocol-buffers wire format, as decoded by google.golang.org/protobuf
    (internal/impl/decode.go [unmarshalPointerEager], encoding/protowire):
    a message is a sequence of (tag, value); unknown fields and known fields met
    with another wire type are skipped with [ConsumeFieldValue]; for a scalar
    field the last occurrence wins; occurrences of a message field are merged.
    Used by the models of the signed-message envelope (C38) and of segment
    verification (C24).  Definitions and their lemmas (own library file). *)
From Coq Require Import List NArith ZArith Bool Lia.
From Scion Require Import Lib.Bytes.
Import ListNotations.
Local Open Scope N_scope.

Module PB.

(** [protowire.ConsumeVarint]: little-endian base-128, at most ten bytes, the
    tenth may only be 0 or 1; [None] = truncated or overflow.  [m] is the weight
    of the next byte, [k] the number of bytes that may still carry a
    continuation bit. *)
Fixpoint varint_aux (k : nat) (m acc : N) (b : bytes) : option (N * bytes) :=
  match b with
  | [] => None
  | x :: t =>
    match k with
    | O => if x <? 2 then Some (acc + x * m, t) else None
    | S k' => if x <? 128 then Some (acc + x * m, t)
              else varint_aux k' (m * 128) (acc + (x - 128) * m) t
    end
  end.
Definition varint (b : bytes) : option (N * bytes) := varint_aux 9 1 0 b.

(** [protowire.AppendVarint] for a value below 2^64. *)
Fixpoint enc_varint_aux (k : nat) (v : N) : bytes :=
  match k with
  | O => [v]
  | S k' => if v <? 128 then [v] else (v mod 128 + 128) :: enc_varint_aux k' (v / 128)
  end.
Definition enc_varint (v : N) : bytes := enc_varint_aux 9 v.

Definition drop (n : nat) (b : bytes) : option bytes :=
  if Nat.leb n (length b) then Some (skipn n b) else None.

(** [protowire.ConsumeBytes] *)
Definition len_prefixed (b : bytes) : option (bytes * bytes) :=
  match varint b with
  | None => None
  | Some (m, r) =>
    if m <=? N.of_nat (length r) then Some (firstn (N.to_nat m) r, skipn (N.to_nat m) r) else None
  end.

(** [protowire.consumeFieldValueD]: the bytes after the value, [None] on a parse
    error.  Inside a group [ConsumeTag] accepts field numbers 1 .. 2^31-1. *)
Fixpoint skip (fuel : nat) (wt num : N) (b : bytes) {struct fuel} : option bytes :=
  match fuel with
  | O => None
  | S f =>
    match wt with
    | 0 => match varint b with Some (_, r) => Some r | None => None end
    | 1 => drop 8 b
    | 2 => match len_prefixed b with Some (_, r) => Some r | None => None end
    | 3 =>
      (fix loop (g : nat) (b : bytes) {struct g} : option bytes :=
         match g with
         | O => None
         | S g' =>
           match varint b with
           | None => None
           | Some (tag, r) =>
             let num2 := tag / 8 in
             let wt2 := tag mod 8 in
             if (num2 <? 1) || (2147483647 <? num2) then None
             else if wt2 =? 4 then (if num2 =? num then Some r else None)
             else match skip f wt2 num2 r with
                  | None => None
                  | Some r' => loop g' r'
                  end
           end
         end) (S (length b)) b
    | 5 => drop 4 b
    | _ => None
    end
  end.

(** A decoded field value: only varints and length-delimited values are ever
    interpreted by the messages modelled here. *)
Inductive val := VInt (v : N) | VLen (s : bytes) | VOther.

(** Top level of [unmarshalPointerEager] (groupTag = 0): field numbers
    1 .. 2^29-1, an end-group tag is an error. *)
Fixpoint fields_aux (fuel : nat) (b : bytes) {struct fuel} : option (list (N * val)) :=
  match fuel with
  | O => None
  | S f =>
    match b with
    | [] => Some []
    | _ =>
      match varint b with
      | None => None
      | Some (tag, r) =>
        let num := tag / 8 in
        let wt := tag mod 8 in
        if (num <? 1) || (536870911 <? num) then None
        else
          if wt =? 0 then
            match varint r with
            | Some (v, r') =>
              match fields_aux f r' with Some l => Some ((num, VInt v) :: l) | None => None end
            | None => None
            end
          else if wt =? 2 then
            match len_prefixed r with
            | Some (s, r') =>
              match fields_aux f r' with Some l => Some ((num, VLen s) :: l) | None => None end
            | None => None
            end
          else if wt =? 4 then None
          else
            match skip (S (length r)) wt num r with
            | Some r' =>
              match fields_aux f r' with Some l => Some ((num, VOther) :: l) | None => None end
            | None => None
            end
      end
    end
  end.
Definition fields (b : bytes) : option (list (N * val)) := fields_aux (S (length b)) b.

(** last varint occurrence of field [n] (proto3 default 0) *)
Definition last_int (n : N) (fs : list (N * val)) : N :=
  fold_left (fun acc p => match p with (k, VInt v) => if k =? n then v else acc | _ => acc end) fs 0.

(** all length-delimited occurrences of field [n], in order *)
Fixpoint all_len (n : N) (fs : list (N * val)) : list bytes :=
  match fs with
  | [] => []
  | (k, VLen s) :: t => if k =? n then s :: all_len n t else all_len n t
  | _ :: t => all_len n t
  end.

(** last length-delimited occurrence (default empty) *)
Definition last_len (n : N) (fs : list (N * val)) : bytes :=
  fold_left (fun acc p => match p with (k, VLen s) => if k =? n then s else acc | _ => acc end) fs [].

(** merged fields of all occurrences of the sub-message field [n];
    [None] when one of them does not parse *)
Fixpoint merged (occ : list bytes) : option (list (N * val)) :=
  match occ with
  | [] => Some []
  | s :: t => match fields s, merged t with
              | Some a, Some b => Some (a ++ b)
              | _, _ => None
              end
  end.

(** Go conversions of a decoded varint *)
Definition to_i32 (v : N) : Z :=
  let w := v mod 4294967296 in
  if w <? 2147483648 then Z.of_N w else (Z.of_N w - 4294967296)%Z.
Definition to_i64 (v : N) : Z :=
  let w := v mod 18446744073709551616 in
  if w <? 9223372036854775808 then Z.of_N w else (Z.of_N w - 18446744073709551616)%Z.
Definition to_u32 (v : N) : N := v mod 4294967296.
(** two's complement image of a signed value, as marshalled (uint64(v)) *)
Definition of_i64 (z : Z) : N := Z.to_N (z mod 18446744073709551616)%Z.

(** Marshalling of single fields (field numbers below 16: one tag byte). *)
Definition enc_int (num v : N) : bytes := (num * 8) :: enc_varint v.
Definition enc_len (num : N) (s : bytes) : bytes :=
  (num * 8 + 2) :: enc_varint (N.of_nat (length s)) ++ s.
(** proto3 implicit presence: zero / empty values are not emitted *)
Definition opt_int (num v : N) : bytes := if v =? 0 then [] else enc_int num v.
Definition opt_len (num : N) (s : bytes) : bytes :=
  match s with [] => [] | _ => enc_len num s end.

(** ------------------------------------------------------------------ lemmas *)

Lemma varint_aux_enc k : forall v m acc rest,
  v < 128 ^ N.of_nat k * 2 ->
  varint_aux k m acc (enc_varint_aux k v ++ rest) = Some (acc + v * m, rest).
Proof.
  induction k as [|k IH]; intros v m acc rest Hv.
  - cbn [enc_varint_aux app varint_aux]. cbn in Hv.
    destruct (v <? 2) eqn:E; [reflexivity|]. apply N.ltb_ge in E. lia.
  - cbn [enc_varint_aux].
    destruct (v <? 128) eqn:E.
    + cbn [app varint_aux]. now rewrite E.
    + cbn [app varint_aux]. apply N.ltb_ge in E.
      assert (Hm : v mod 128 < 128) by (apply N.mod_lt; discriminate).
      destruct (v mod 128 + 128 <? 128) eqn:E2; [apply N.ltb_lt in E2; lia|].
      rewrite IH.
      * f_equal. f_equal.
        replace (v mod 128 + 128 - 128) with (v mod 128) by lia.
        pose proof (N.div_mod v 128 ltac:(discriminate)) as D. nia.
      * rewrite Nat2N.inj_succ, N.pow_succ_r' in Hv.
        apply N.div_lt_upper_bound; [discriminate|]. lia.
Qed.

Lemma varint_enc v rest :
  v < 18446744073709551616 -> varint (enc_varint v ++ rest) = Some (v, rest).
Proof.
  intros H. unfold varint, enc_varint. rewrite varint_aux_enc.
  - f_equal. f_equal. lia.
  - change (128 ^ N.of_nat 9 * 2) with 18446744073709551616. exact H.
Qed.

Lemma len_prefixed_enc s rest :
  N.of_nat (length s) < 18446744073709551616 ->
  len_prefixed (enc_varint (N.of_nat (length s)) ++ s ++ rest) = Some (s, rest).
Proof.
  intros H. unfold len_prefixed. rewrite varint_enc by exact H.
  rewrite app_length.
  destruct (N.of_nat (length s) <=? N.of_nat (length s + length rest)) eqn:E.
  - rewrite Nat2N.id. rewrite firstn_app, Nat.sub_diag, firstn_all. cbn [firstn].
    rewrite app_nil_r. rewrite skipn_app, Nat.sub_diag, skipn_all. reflexivity.
  - apply N.leb_gt in E. lia.
Qed.

Lemma fields_aux_nil f : fields_aux (S f) [] = Some [].
Proof. reflexivity. Qed.

(** one more unit of fuel never hurts *)
Lemma fields_aux_int f num v rest l :
  1 <= num -> num < 16 -> v < 18446744073709551616 ->
  fields_aux f rest = Some l ->
  fields_aux (S f) (enc_int num v ++ rest) = Some ((num, VInt v) :: l).
Proof.
  intros H1 H2 Hv Hr. unfold enc_int. cbn [app fields_aux].
  assert (Ht : varint (num * 8 :: enc_varint v ++ rest) = Some (num * 8, enc_varint v ++ rest)).
  { unfold varint. cbn [varint_aux]. destruct (num * 8 <? 128) eqn:E; [f_equal; f_equal; lia|].
    apply N.ltb_ge in E. lia. }
  rewrite Ht.
  replace (num * 8 / 8) with num by (rewrite N.div_mul; [reflexivity|discriminate]).
  replace ((num * 8) mod 8) with 0 by (rewrite N.mod_mul; [reflexivity|discriminate]).
  destruct (num <? 1) eqn:E1; [apply N.ltb_lt in E1; lia|].
  destruct (536870911 <? num) eqn:E2; [apply N.ltb_lt in E2; lia|].
  cbn [orb]. rewrite varint_enc by exact Hv. now rewrite Hr.
Qed.

Lemma fields_aux_len f num s rest l :
  1 <= num -> num < 16 -> N.of_nat (length s) < 18446744073709551616 ->
  fields_aux f rest = Some l ->
  fields_aux (S f) (enc_len num s ++ rest) = Some ((num, VLen s) :: l).
Proof.
  intros H1 H2 Hs Hr. unfold enc_len. cbn [app fields_aux].
  assert (Ht : varint (num * 8 + 2 :: (enc_varint (N.of_nat (length s)) ++ s) ++ rest)
               = Some (num * 8 + 2, (enc_varint (N.of_nat (length s)) ++ s) ++ rest)).
  { unfold varint. cbn [varint_aux]. destruct (num * 8 + 2 <? 128) eqn:E; [f_equal; f_equal; lia|].
    apply N.ltb_ge in E. lia. }
  rewrite Ht.
  replace ((num * 8 + 2) / 8) with num
    by (apply N.div_unique with 2; lia).
  replace ((num * 8 + 2) mod 8) with 2
    by (apply N.mod_unique with num; lia).
  destruct (num <? 1) eqn:E1; [apply N.ltb_lt in E1; lia|].
  destruct (536870911 <? num) eqn:E2; [apply N.ltb_lt in E2; lia|].
  cbn [orb]. rewrite <- app_assoc. rewrite len_prefixed_enc by exact Hs. now rewrite Hr.
Qed.

Lemma fields_aux_mono f : forall b l, fields_aux f b = Some l -> fields_aux (S f) b = Some l.
Proof.
  induction f as [|f IH]; intros b l H; [discriminate|].
  remember (S f) as g eqn:Hg.
  cbn [fields_aux]. rewrite Hg in H. cbn [fields_aux] in H.
  destruct b as [|x t]; [exact H|].
  destruct (varint (x :: t)) as [[tag r]|]; [|discriminate].
  destruct ((tag / 8 <? 1) || (536870911 <? tag / 8)); [discriminate|].
  destruct (tag mod 8 =? 0).
  { destruct (varint r) as [[v r']|]; [|discriminate].
    destruct (fields_aux f r') as [l'|] eqn:E; [|discriminate].
    rewrite (IH _ _ E). exact H. }
  destruct (tag mod 8 =? 2).
  { destruct (len_prefixed r) as [[s r']|]; [|discriminate].
    destruct (fields_aux f r') as [l'|] eqn:E; [|discriminate].
    rewrite (IH _ _ E). exact H. }
  destruct (tag mod 8 =? 4); [discriminate|].
  destruct (skip _ _ _ _) as [r'|]; [|discriminate].
  destruct (fields_aux f r') as [l'|] eqn:E; [|discriminate].
  rewrite (IH _ _ E). exact H.
Qed.

Lemma fields_aux_le f g b l : (f <= g)%nat -> fields_aux f b = Some l -> fields_aux g b = Some l.
Proof. induction 1 as [|g Hle IH]; [auto|]. intros Hf. apply fields_aux_mono. auto. Qed.

(** [fields] of a marshalled field followed by a parsable rest *)
Lemma fields_int num v rest l :
  1 <= num -> num < 16 -> v < 18446744073709551616 ->
  fields rest = Some l -> fields (enc_int num v ++ rest) = Some ((num, VInt v) :: l).
Proof.
  intros H1 H2 Hv Hr. unfold fields in *.
  apply fields_aux_int; try assumption.
  eapply fields_aux_le; [|exact Hr]. rewrite app_length. unfold enc_int. cbn [length]. lia.
Qed.

Lemma fields_len num s rest l :
  1 <= num -> num < 16 -> N.of_nat (length s) < 18446744073709551616 ->
  fields rest = Some l -> fields (enc_len num s ++ rest) = Some ((num, VLen s) :: l).
Proof.
  intros H1 H2 Hs Hr. unfold fields in *.
  apply fields_aux_len; try assumption.
  eapply fields_aux_le; [|exact Hr]. rewrite app_length. unfold enc_len. cbn [length]. lia.
Qed.

Lemma fields_nil : fields [] = Some [].
Proof. reflexivity. Qed.

End PB.
