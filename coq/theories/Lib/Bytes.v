(** Bytes and big-endian words.  [byte := N], packets are [list N]. *)
From Coq Require Import List Arith NArith Bool Lia ZifyN ZifyNat ZifyBool.
Import ListNotations.
Local Open Scope N_scope.

Definition byte := N.
Definition bytes := list N.

Definition wf_byte (b : N) : Prop := b < 256.
Definition wf_bytes (l : bytes) : Prop := Forall wf_byte l.
Definition wf_bytesb (l : bytes) : bool := forallb (fun b => b <? 256) l.

Lemma wf_bytesb_spec l : wf_bytesb l = true <-> wf_bytes l.
Proof.
  unfold wf_bytesb, wf_bytes. rewrite forallb_forall, Forall_forall.
  split; intros H x Hx; specialize (H x Hx); unfold wf_byte in *; lia.
Qed.

(** [be k n]: the [k] low-order bytes of [n], most significant first. *)
Fixpoint be (k : nat) (n : N) : bytes :=
  match k with
  | O => []
  | S k' => (n / 256 ^ N.of_nat k') mod 256 :: be k' n
  end.

(** [unbe l]: the number denoted by the big-endian byte string [l]. *)
Definition unbe (l : bytes) : N := fold_left (fun a b => a * 256 + b) l 0.

Lemma be_length k n : length (be k n) = k.
Proof. revert n; induction k as [|k IH]; intros n; cbn [be length]; [reflexivity|now rewrite IH]. Qed.

Lemma be_wf k n : wf_bytes (be k n).
Proof.
  revert n; induction k as [|k IH]; intros n; cbn [be]; constructor.
  - unfold wf_byte. apply N.mod_lt. discriminate.
  - apply IH.
Qed.

Lemma unbe_acc l : forall a, fold_left (fun a b => a * 256 + b) l a = a * 256 ^ N.of_nat (length l) + unbe l.
Proof.
  unfold unbe. induction l as [|x t IH]; intros a; cbn [fold_left length].
  - cbn. lia.
  - rewrite IH. rewrite (IH (0 * 256 + x)). rewrite Nat2N.inj_succ, N.pow_succ_r'. lia.
Qed.

Lemma unbe_cons x t : unbe (x :: t) = x * 256 ^ N.of_nat (length t) + unbe t.
Proof. unfold unbe at 1. cbn [fold_left]. rewrite unbe_acc. lia. Qed.

Lemma unbe_app l1 l2 : unbe (l1 ++ l2) = unbe l1 * 256 ^ N.of_nat (length l2) + unbe l2.
Proof.
  unfold unbe at 1. rewrite fold_left_app. fold (unbe l1). now rewrite unbe_acc.
Qed.

Lemma unbe_lt l : wf_bytes l -> unbe l < 256 ^ N.of_nat (length l).
Proof.
  induction 1 as [|x t Hx Ht IH]; [cbn; lia|].
  rewrite unbe_cons. cbn [length]. rewrite Nat2N.inj_succ, N.pow_succ_r'. unfold wf_byte in Hx. nia.
Qed.

Lemma unbe_be k : forall n, unbe (be k n) = n mod 256 ^ N.of_nat k.
Proof.
  induction k as [|k IH]; intros n.
  - cbn. now rewrite N.mod_1_r.
  - cbn [be]. rewrite unbe_cons, be_length, IH.
    rewrite Nat2N.inj_succ, N.pow_succ_r'.
    set (p := 256 ^ N.of_nat k). assert (Hp : p <> 0) by (unfold p; apply N.pow_nonzero; discriminate).
    rewrite (N.mul_comm 256 p).
    rewrite N.mod_mul_r by (try exact Hp; discriminate). lia.
Qed.

Lemma unbe_be_small k n : n < 256 ^ N.of_nat k -> unbe (be k n) = n.
Proof. intros H. rewrite unbe_be. now apply N.mod_small. Qed.

Lemma be_add_high k : forall a n, be k (a * 256 ^ N.of_nat k + n) = be k n.
Proof.
  induction k as [|k IH]; intros a n; [reflexivity|].
  cbn [be]. f_equal.
  - rewrite Nat2N.inj_succ, N.pow_succ_r'.
    set (p := 256 ^ N.of_nat k).
    assert (Hp : p <> 0) by (unfold p; apply N.pow_nonzero; discriminate).
    replace (a * (256 * p) + n) with (a * 256 * p + n) by lia.
    rewrite N.div_add_l by exact Hp.
    rewrite N.add_comm, N.mod_add by discriminate. reflexivity.
  - rewrite Nat2N.inj_succ, N.pow_succ_r'.
    replace (a * (256 * 256 ^ N.of_nat k) + n) with (a * 256 * 256 ^ N.of_nat k + n) by lia.
    apply IH.
Qed.

Lemma be_unbe l : wf_bytes l -> be (length l) (unbe l) = l.
Proof.
  induction 1 as [|x t Hx Ht IH]; [reflexivity|].
  cbn [length be]. f_equal.
  - rewrite unbe_cons. pose proof (unbe_lt t Ht) as L. unfold wf_byte in Hx.
    set (p := 256 ^ N.of_nat (length t)) in *.
    assert (Hp : p <> 0) by (unfold p; apply N.pow_nonzero; discriminate).
    rewrite N.div_add_l by exact Hp. rewrite (N.div_small _ _ L). rewrite N.add_0_r.
    now apply N.mod_small.
  - rewrite unbe_cons, be_add_high. exact IH.
Qed.

Lemma be_inj k n m : n < 256 ^ N.of_nat k -> m < 256 ^ N.of_nat k -> be k n = be k m -> n = m.
Proof. intros Hn Hm E. rewrite <- (unbe_be_small k n Hn), <- (unbe_be_small k m Hm). now rewrite E. Qed.

(** Checked slicing: [None] where Go would panic / report truncation. *)
Definition slice (l : bytes) (off len : nat) : option bytes :=
  if Nat.leb (off + len) (length l) then Some (firstn len (skipn off l)) else None.

Lemma slice_length l off len s : slice l off len = Some s -> length s = len.
Proof.
  unfold slice. destruct (Nat.leb (off + len) (length l)) eqn:E; [|discriminate].
  intros H; inversion H; subst. rewrite firstn_length, skipn_length. apply Nat.leb_le in E. lia.
Qed.

(** read a [k]-byte big-endian word at offset [off] *)
Definition word (l : bytes) (off k : nat) : option N :=
  match slice l off k with Some s => Some (unbe s) | None => None end.

(** replace [length s] bytes at offset [off]; identity when out of range *)
Definition splice (l : bytes) (off : nat) (s : bytes) : bytes :=
  if Nat.leb (off + length s) (length l) then firstn off l ++ s ++ skipn (off + length s) l else l.

Lemma splice_length l off s : length (splice l off s) = length l.
Proof.
  unfold splice. destruct (Nat.leb (off + length s) (length l)) eqn:E; [|reflexivity].
  apply Nat.leb_le in E. rewrite !app_length, firstn_length, skipn_length. lia.
Qed.

(** bitwise xor of 16-bit values *)
Definition xor16 (a b : N) : N := N.lxor a b.

Lemma xor16_assoc a b c : xor16 (xor16 a b) c = xor16 a (xor16 b c).
Proof. apply N.lxor_assoc. Qed.
Lemma xor16_comm a b : xor16 a b = xor16 b a.
Proof. apply N.lxor_comm. Qed.
Lemma xor16_nilpotent a : xor16 a a = 0.
Proof. apply N.lxor_nilpotent. Qed.
Lemma xor16_0_r a : xor16 a 0 = a.
Proof. apply N.lxor_0_r. Qed.
Lemma xor16_cancel a b : xor16 (xor16 a b) b = a.
Proof. unfold xor16. now rewrite N.lxor_assoc, N.lxor_nilpotent, N.lxor_0_r. Qed.
